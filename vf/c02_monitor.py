"""C02 monitor: run one octet stream against one real endpoint and compare the observable trace
with the timeline of ``vf.c02_judge`` after every read (prefix check) and at the end."""

import struct

from . import c02_fast as F
from . import c02_judge as J
from . import rfc6455_ref as ref
from .ws import WS, is_open

FAIL_STATUS = ("1002", "1007")
REASON_HOOK = None      # set by the check: (R, ctx, timeline, reason text given by the implementation)


class Ctx:
    __slots__ = ("role", "inside", "pmce", "drop")

    def __init__(self, role, inside, pmce, drop):
        self.role, self.inside, self.pmce, self.drop = role, bool(inside), bool(pmce), bool(drop)

    def name(self):
        return "%s/%s/%s/%s" % (self.role, "inside" if self.inside else "outside",
                                "pmce" if self.pmce else "plain", "drop" if self.drop else "close")

    def key(self):
        return "%s/%s/%s" % (self.role, "drop" if self.drop else "close", "pmce" if self.pmce else "plain")

    def to_json(self):
        return [self.role, self.inside, self.pmce, self.drop]


ALL_CTX = [Ctx(r, i, p, d) for r in ("server", "client") for i in (0, 1) for p in (0, 1) for d in (1, 0)]


def _no_pformat(obj, *a, **kw):
    return "<pformat skipped by vf.c02_monitor>"


class Env:
    """One world per worker process, many endpoints in it."""

    def __init__(self):
        self.ws = WS()
        self.settle = F.make_settle(self.ws.world)
        self.ws.world._c02_settle = self.settle
        self.factories = {}
        self.ncases = 0
        self._pformat = None

    def fast_logging(self, on):
        """``WebSocketProtocol._connectionMade`` / ``startHandshake`` pretty-print all protocol options resp. the
        transport details for a DEBUG log line on every connection (eagerly, ~40% of the cost of a case).  For the
        exhaustive sweep the formatter is replaced by a constant; nothing but the text of that log line (discarded:
        the log level is above debug) depends on it.  The corpora and generated parts run with the original."""
        import autobahn.websocket.protocol as P
        if on and self._pformat is None:
            self._pformat = P.pformat
            P.pformat = _no_pformat
        elif not on and self._pformat is not None:
            P.pformat = self._pformat
            self._pformat = None

    def factory(self, role, pmce, drop):
        k = (role, pmce, drop)
        f = self.factories.get(k)
        if f is not None:
            return f
        opts = {"failByDrop": bool(drop)}
        if pmce:
            from autobahn.websocket.compress import (PerMessageDeflateOffer, PerMessageDeflateOfferAccept,
                                                     PerMessageDeflateResponse, PerMessageDeflateResponseAccept)
            if role == "server":
                def accept(offers):
                    for o in offers:
                        if isinstance(o, PerMessageDeflateOffer):
                            return PerMessageDeflateOfferAccept(o)
                opts["perMessageCompressionAccept"] = accept
            else:
                def caccept(resp):
                    if isinstance(resp, PerMessageDeflateResponse):
                        return PerMessageDeflateResponseAccept(resp)
                opts["perMessageCompressionOffers"] = [PerMessageDeflateOffer()]
                opts["perMessageCompressionAccept"] = caccept
        f = self.ws.server_factory(options=opts) if role == "server" else self.ws.client_factory(options=opts)
        self.factories[k] = f
        return f

    def open(self, ctx):
        f = self.factory(ctx.role, ctx.pmce, ctx.drop)
        ext = "permessage-deflate" if ctx.pmce else None
        if ctx.role == "server":
            ep, head, _ = F.open_server(self.ws, f, ext)
            if ctx.pmce and b"permessage-deflate" not in head:
                raise RuntimeError("harness: PMCE not negotiated by server: %r" % head[:300])
        else:
            ep, head, _ = F.open_client(self.ws, f, ext)
        if not is_open(ep) or ep.escaped:
            raise RuntimeError("harness: connection did not open (%s): %r" % (ctx.name(), ep.escaped))
        if bool(getattr(ep.proto, "_perMessageCompress", None)) != ctx.pmce:
            raise RuntimeError("harness: PMCE state is not what the context asks for (%s)" % ctx.name())
        ep.take_output()
        return ep

    def done(self):
        self.ncases += 1
        if self.ncases % 256 == 0:
            F.flush_world(self.ws)

    def close(self):
        self.fast_logging(False)
        F.flush_world(self.ws)
        w = self.ws.world
        if hasattr(w, "close"):
            w.close()


class Obs:
    """Incremental reading of ``ep.chron`` (see vf/c02_fast.py)."""

    def __init__(self, ep):
        self.ep = ep
        self.cur = len(ep.chron)
        self.deliv, self.deliv_idx = [], []
        self.pongs, self.pong_idx = [], []
        self.closes = []        # (status|None, reason bytes, chron idx)
        self.drop = None        # (kind, idx)
        self.onclose = None
        self.escaped = []       # repr of every exception that reached the framework during this case
        self.escaped_info = []  # (exception type name, chron idx)
        self._nesc = len(ep.escaped)
        self._wesc = len(ep.world.escaped)
        self.other_frames = 0
        self.wbuf = b""
        self.wraw = bytearray()     # every octet handed to the transport, in order
        self.wjudged = 0            # len(wraw) when the written octets were last judged (see Case.judge_written)
        self.wframes = 0            # complete frames found in wraw by the strict judge

    def update(self):
        ch = self.ep.chron
        i, n = self.cur, len(ch)
        while i < n:
            e = ch[i]
            t = e[0]
            if t == "app":
                k = e[1]
                if k == "onMessage":
                    self.deliv.append(("message", e[3], e[2]))
                    self.deliv_idx.append(i)
                elif k == "onPing":
                    self.deliv.append(("ping", e[2]))
                    self.deliv_idx.append(i)
                elif k == "onPong":
                    self.deliv.append(("pong", e[2]))
                    self.deliv_idx.append(i)
                elif k == "onClose" and self.onclose is None:
                    self.onclose = (e[2], e[3], e[4])
            elif t == "write":
                self.wraw += e[1]
                frames, rest = ref.parse_frames(self.wbuf + e[1], allow_partial=True)
                self.wbuf = rest
                for f in frames:
                    if f.opcode == 10:
                        self.pongs.append(f.payload)
                        self.pong_idx.append(i)
                    elif f.opcode == 8:
                        st = struct.unpack("!H", f.payload[:2])[0] if len(f.payload) >= 2 else None
                        self.closes.append((st, f.payload[2:], i))
                    else:
                        self.other_frames += 1
            elif t == "drop":
                if self.drop is None:
                    self.drop = (e[1], i)
            elif t == "escaped":
                self.escaped.append(e[1])
                x = self.ep.escaped[self._nesc] if self._nesc < len(self.ep.escaped) else None
                self._nesc += 1
                self.escaped_info.append((_exc_name(x), i))
            i += 1
        self.cur = n
        # exceptions that reached the event loop / a timer instead of the transport's read callback (asyncio: the
        # adapter processes received octets in a future callback); one case at a time runs in this world
        we = self.ep.world.escaped
        while self._wesc < len(we):
            who, x = we[self._wesc]
            self._wesc += 1
            if who in ("loop", "timer"):
                self.escaped.append(repr(x))
                self.escaped_info.append((_exc_name(x), n))

    def failure(self):
        """None | (class, chron idx): 'drop' = transport dropped without a close frame written before;
        otherwise the status of the first close frame written ('1002', '1007', '1000', 'None', ...)."""
        c = self.closes[0] if self.closes else None
        d = self.drop
        if d is not None and (c is None or d[1] < c[2]):
            return ("drop", d[1])
        if c is not None:
            return (str(c[0]), c[2])
        return None

    def impl_reason(self):
        """The human-readable reason the implementation gave (evidence of which call site fired)."""
        if self.closes and self.closes[0][0] in (1002, 1007):
            return self.closes[0][1].decode("utf8", "replace")
        if self.onclose and isinstance(self.onclose[2], str) and "I dropped the WebSocket TCP connection: " in self.onclose[2]:
            return self.onclose[2].split("I dropped the WebSocket TCP connection: ", 1)[1].rstrip('")')
        return None


def _exc_name(x):
    exc = getattr(x, "exc", None)
    if exc is None:
        return "unknown"
    t = type(exc)
    return t.__name__ if t.__module__ in ("builtins", "__main__") else "%s.%s" % (t.__module__, t.__name__)


def _short(ev):
    if ev[0] == "message":
        return ["message", bool(ev[1]), len(ev[2]), ev[2][:24].hex()]
    return [ev[0], len(ev[1]), ev[1][:24].hex()]


class Case:
    """One execution: context + stream + segmentation."""

    def __init__(self, env, R, ctx, stream, tl, replay, label):
        self.env, self.R, self.ctx, self.stream, self.tl = env, R, ctx, stream, tl
        self.replay, self.label = replay, label
        self.bad = False
        self.tag = ""       # prefix of the 'what' part of violation keys ("interleaved/": other connections were open)

    def escaped_violation(self, k, obs):
        """exception out of the read callback.  Decompressor errors are keyed by mechanism only (the frame that
        carries the undecodable octets may follow ANY violation in closing-handshake mode): phase = was the
        connection still open, or had the implementation already failed it."""
        name, idx = obs.escaped_info[0]
        f = obs.failure()
        text = "exception reached the framework: %s" % obs.escaped[0][:300]
        if name == "zlib.error" and self.ctx.pmce:
            phase = "after-failure" if (f is not None and f[1] < idx) else "open"
            self.violation("escaped", text, k, obs, key="C02/pmce/escaped/zlib-error/" + phase)
        else:
            self.violation("escaped/" + name, text, k, obs)

    def violation(self, what, text, k, obs, extra=None, key=None):
        tl = self.tl
        clause = tl.failure.clause if tl.failure else ("valid-close" if tl.close else "no-violation")
        if key is None:
            key = "C02/%s/%s%s/%s" % (self.ctx.key(), self.tag, what, clause)
        self.bad = True
        f = obs.failure()
        detail = {"ctx": self.ctx.name(), "label": self.label, "stream_len": len(self.stream),
                  "stream_head_hex": self.stream[:96].hex(), "octets_fed": k,
                  "expected": {"events_due": [_short(e) for e in tl.due(k)][:12], "failure": repr(tl.failure),
                               "failure_status": tl.failure_status(k), "close": repr(tl.close and tl.close[:2]),
                               "grey_from": tl.grey_from},
                  "observed": {"deliveries": [_short(e) for e in obs.deliv][:12], "pongs": [p[:24].hex() for p in obs.pongs][:12],
                               "failure": f, "closes": [(c[0], c[1][:60].decode("utf8", "replace")) for c in obs.closes][:3],
                               "drop": obs.drop, "onClose": obs.onclose, "escaped": obs.escaped[:3]}}
        if extra:
            detail.update(extra)
        self.R.violation(key, text, detail, self.replay)

    def run(self, groups, online=True):
        """Feed the reads; returns the comparable final trace (or None when not comparable).  ``groups``: list of
        reads; a read is either one chunk (bytes) or a list of chunks that reach the protocol back to back inside
        ONE read event (asyncio: ``feed_burst``; Twisted, where dataReceived() is synchronous: ordinary reads)."""
        try:
            self.begin()
            for g in groups:
                self.feed(g, online)
            return self.finish()
        finally:
            self.env.done()

    def begin(self):
        self.ep = self.env.open(self.ctx)
        self.obs = Obs(self.ep)
        self.k = 0
        self.nburst = 0

    def feed(self, g, online=True):
        ep, settle = self.ep, self.env.settle
        if isinstance(g, (bytes, bytearray)):
            ep.feed(g)
            settle()
            self.k += len(g)
        else:
            fb = getattr(ep, "feed_burst", None)
            if fb is not None and len(g) > 1:
                handed = fb(g)
                settle()
                if handed > 1:
                    self.nburst += 1
                    self.R.count("aio_burst_reads")
                    self.R.count("aio_burst_chunks", handed)
            else:
                for c in g:
                    ep.feed(c)
                    settle()
            self.k += sum(len(c) for c in g)
        if online and not self.bad:
            self.verify(self.obs, self.k, False)

    def finish(self):
        env, R, tl, ctx = self.env, self.R, self.tl, self.ctx
        ep, obs, settle, k = self.ep, self.obs, self.env.settle, self.k
        if k != len(self.stream):
            raise RuntimeError("harness: segmentation does not cover the stream")
        if not self.bad:
            self.verify(obs, k, True)
        f = obs.failure()
        # teardown (and the unclean-close report of fail-by-drop)
        if ep.close_requested:
            ep.finish_close()
            settle()
            obs.update()
            if not self.bad and f and f[0] == "drop" and tl.failure and (tl.grey_from is None or k <= tl.grey_from):
                R.count("onclose_reports_checked")
                oc = obs.onclose
                if oc is None or oc[0] is not False or oc[1] != 1006:
                    self.violation("onclose-report", "after failing by drop onClose was %r, expected (False, 1006, ...)" % (oc,), k, obs)
        else:
            ep.peer_close(clean=False)
            settle()
            obs.update()
        if obs.escaped and not self.bad:
            self.escaped_violation(k, obs)
        if not self.bad:
            self.judge_written(obs, k, True)
        reason = obs.impl_reason()
        if reason and REASON_HOOK is not None and not self.bad:
            REASON_HOOK(R, ctx, tl, reason)
        if tl.grey_from is not None and len(self.stream) > tl.grey_from:
            return None
        if tl.failure_status(len(self.stream)) == "maybe":
            return None
        fidx = f[1] if (f and f[0] in ("drop",) + FAIL_STATUS) else None
        deliv = [d for d, i in zip(obs.deliv, obs.deliv_idx) if fidx is None or i < fidx]
        return (tuple(deliv), tuple(obs.pongs), f[0] if f else None)

    def judge_written(self, obs, k, final):
        """Whatever the endpoint writes (pongs, close frames - the application never sends in this check) is what
        its PEER has to read: the octets are judged by the same RFC 6455 judge in the peer's role.  A pong or a
        close frame the peer must reject (payload > 125 octets / extended length on a control frame, masking wrong
        for the role, RSV bits, non-minimal length, close payload of one octet / unsendable code / reason not UTF-8)
        answers nothing and announces nothing.  Asserted in every zone, grey or not.  -> True when a violation
        was reported."""
        if len(obs.wraw) == obs.wjudged and not final:
            return False
        obs.wjudged = len(obs.wraw)
        if not obs.wraw:
            return False
        peer = "client" if self.ctx.role == "server" else "server"
        wt = J.judge(peer, bytes(obs.wraw), self.ctx.pmce)
        obs.wframes = wt.frames
        clause = None
        if wt.failure is not None:
            clause = wt.failure.clause
        elif final and wt.incomplete:
            clause = "truncated-frame"
        if clause is not None:
            self.violation("malformed-reply", "the octets written by the endpoint are not frames its peer can accept: judged in the "
                           "peer's role they are a violation (%s)" % clause, k, obs,
                           extra={"written_head_hex": bytes(obs.wraw[:64]).hex(), "written_len": len(obs.wraw), "written_judged": wt.summary()},
                           key="C02/%s/malformed-reply/%s" % (self.ctx.key(), clause))
            return True
        if final:
            R = self.R
            R.count("reply_frames_judged", obs.wframes)
            f = obs.failure()
            if obs.closes and f is not None and f[0] in FAIL_STATUS:
                R.count("failure_close_frames_judged")
                n = len(obs.closes[0][1])
                R.seen("failure_reason_lengths", "%d-%d" % (n // 20 * 20, n // 20 * 20 + 19))
                if n >= 100:
                    R.count("failure_close_reason_ge_100_octets_judged")
                if "grey-deflate" in self.tl.saw:
                    R.count("undecodable_deflate_failure_closes_judged")
        return False

    # ---------------------------------------------------------------------------------------------
    def verify(self, obs, k, final):
        tl, ctx, R = self.tl, self.ctx, self.R
        obs.update()
        R.count("prefix_checks")
        if obs.escaped:
            self.escaped_violation(k, obs)
            return
        if not final and self.judge_written(obs, k, False):
            return
        grey = tl.grey_from is not None and k > tl.grey_from
        exp = tl.due(tl.grey_from if grey else k)
        # events that fall due inside the failure window (control frames interleaved in a compressed text message
        # after the frame in which the inflated text became invalid): delivered or not, depending on whether the
        # receiver had already noticed - mandatory are those due up to the earliest decidable offset
        nmand = len(exp) if tl.failure is None else min(len(exp), sum(1 for (d, _) in tl.events if d <= min(k, tl.failure.earliest)))
        f = obs.failure()
        close_due = tl.close is not None and tl.close[0] <= k
        if close_due:
            # a valid close frame was received: the endpoint must not treat it as a violation
            R.count("valid_close_checked") if final else None
            grey_code = tl.close[3]
            if f is None:
                self.violation("valid-close-unanswered", "no close frame written in reply to a valid close frame", k, obs)
                return
            if f[0] == "drop" or f[0] in FAIL_STATUS:
                ok = grey_code and (f[0] == "drop" if ctx.drop else f[0] == "1002")
                if not ok:
                    self.violation("spurious-failure", "a valid close frame (code %r) was answered by failing the connection (%s)" % (
                        tl.close[1], f[0]), k, obs)
                    return
        if grey:
            got = obs.deliv[:len(exp)]
            if got != exp[:len(got)] or len(got) < (len(exp) if tl.failure is None else nmand):
                self.violation("delivery-mismatch", "deliveries before the grey zone differ from the reference", k, obs)
            return
        status = tl.failure_status(k)
        is_failure = f is not None and not close_due
        if status == "no" and is_failure:
            self.violation("spurious-failure", "connection failed (%s) although the octets received so far contain no violation" % f[0], k, obs)
            return
        if status == "must" and f is None:
            self.violation("missing-failure", "violation %s is complete in the octets received but the connection was not failed" % tl.failure.clause, k, obs)
            return
        fidx = None
        if is_failure:
            fidx = f[1]
            kinds = tl.failure.kinds()
            if ctx.drop:
                if f[0] != "drop":
                    self.violation("wrong-failure-mode", "failByDrop is on but the first reaction was a close frame with status %s" % f[0], k, obs)
                    return
            else:
                allowed = set()
                if "protocol" in kinds:
                    allowed.add("1002")
                if "payload" in kinds:
                    allowed.add("1007")
                if f[0] == "drop":
                    self.violation("wrong-failure-mode", "failByDrop is off but the transport was dropped without a close frame", k, obs)
                    return
                if f[0] not in allowed:
                    self.violation("wrong-failure-class", "first close frame has status %s, the violation (%s) requires %s" % (
                        f[0], tl.failure.clause, "/".join(sorted(allowed))), k, obs)
                    return
            if final:
                R.count("outcome/%s/%s" % ("drop" if ctx.drop else "close", f[0] if not ctx.drop else tl.failure.kind))
        # deliveries
        before = obs.deliv if fidx is None else [d for d, i in zip(obs.deliv, obs.deliv_idx) if i < fidx]
        lo = len(exp) if fidx is None else nmand     # a receiver that has not failed delivers everything that is due
        if not (lo <= len(before) <= len(exp) and before == exp[:len(before)]):
            if len(before) < lo and before == exp[:len(before)]:
                sub = "missing-" + exp[len(before)][0]
            elif len(before) > len(exp) and before[:len(exp)] == exp:
                sub = "extra-" + before[len(exp)][0]
            else:
                sub = "different"
            self.violation("delivery-mismatch/" + sub, "deliveries differ from the events RFC 6455 assigns to the well-formed prefix", k, obs)
            return
        if final and nmand < len(exp):
            # events inside the failure window of a compressed text message: which way the implementation went
            R.count("events_in_failure_window_checked", len(exp) - nmand)
            R.count("events_in_failure_window_delivered", len(before) - nmand)
        exp = exp[:len(before)]
        if fidx is not None:
            after = [d for d, i in zip(obs.deliv, obs.deliv_idx) if i > fidx]
            if ctx.drop and after:
                self.violation("delivered-after-failure/" + after[0][0], "a callback was delivered after the connection was failed by drop", k, obs)
                return
            if any(d[0] == "message" for d in after):
                self.violation("delivered-after-failure/message", "a message was delivered after the violation", k, obs)
                return
            if any(i > fidx for i in obs.pong_idx):
                self.violation("pong-after-failure", "a pong was written after the violation", k, obs)
                return
        pings = [e[1] for e in exp if e[0] == "ping"]
        if obs.pongs != pings:
            self.violation("pong-mismatch", "pongs written %r differ from the pings received %r" % (
                [p[:16].hex() for p in obs.pongs][:6], [p[:16].hex() for p in pings][:6]), k, obs)
            return
        if final:
            R.count("deliveries_compared", len(exp))
            R.count("pongs_compared", len(pings))
            R.count("messages_compared", sum(1 for e in exp if e[0] == "message"))
            if tl.compressed_due:
                last = tl.events[len(exp) - 1][0] if exp else -1
                R.count("compressed_messages_compared", sum(1 for d in tl.compressed_due if d <= last))
