"""C08 helper: the Unicode character-class dimension of the URI oracle.

The WAMP URI rule is stated in prose by the spec: a URI component MUST NOT contain '.', '#' or *whitespace characters*
(the loose regex ``[^\\s\\.#]`` is its rendering).  Which characters are whitespace is a property of the character, not of
a regex flag, so the oracle takes it from the Unicode standard: the code points with the ``White_Space`` property
(PropList.txt; the list below is written out by hand and cross-checked at start-up against the general categories
Zs/Zl/Zp of the interpreter's ``unicodedata`` - a disagreement makes the run inconclusive, never a verdict).

Deliberately NOT in the must-reject class (either outcome is accepted, only totality is required):
  * U+001C..U+001F (information separators): whitespace for Python's ``str.isspace()`` / ``\\s``, not for Unicode;
  * U+180E (White_Space until Unicode 6.2, removed in 6.3), U+200B..U+200D, U+2060, U+FEFF (zero width / format characters
    some regex flavours treat as space);
  * Unicode decimal digits other than 0-9 in strict mode (grey in vf/wamp_grammar.py already).

``uri_judge`` / ``offenders`` wrap the shared table oracle of vf/wamp_grammar.py (which leaves every non-ASCII space grey)
and upgrade 'grey: uri-unicode-whitespace' to 'reject' when the string contains a non-ASCII White_Space code point.
"""

import unicodedata

from vf import wamp_grammar as G

# Unicode White_Space property (PropList.txt, unchanged since Unicode 6.3)
WHITE_SPACE_CPS = (list(range(0x09, 0x0E)) + [0x20, 0x85, 0xA0, 0x1680] + list(range(0x2000, 0x200B)) +
                   [0x2028, 0x2029, 0x202F, 0x205F, 0x3000])
WHITE_SPACE = frozenset(chr(c) for c in WHITE_SPACE_CPS)
NONASCII_WS = frozenset(ch for ch in WHITE_SPACE if ord(ch) > 0x7F)          # 19 code points
# "space-like for somebody" - grey
SPACE_LIKE_GREY_CPS = [0x1C, 0x1D, 0x1E, 0x1F, 0x180E, 0x200B, 0x200C, 0x200D, 0x2060, 0xFEFF]
# other non-ASCII neighbours that must stay ACCEPTED/grey (never asserted): exercised so that the monitor is seen not to fire on them
CONTROL_SAMPLE_CPS = [0xE9, 0x3BA, 0x663, 0xFF11, 0x2107, 0x3001, 0xFFFD, 0x1F600, 0x00AD, 0x0301]

ICLS = "uri-unicode-whitespace"


def selfcheck():
    """[] if the hand-written White_Space list agrees with the interpreter's Unicode database, else a list of complaints."""
    bad = []
    for cp in range(0x110000):
        ch = chr(cp)
        cat = unicodedata.category(ch)
        if cat in ("Zs", "Zl", "Zp") and ch not in WHITE_SPACE:
            bad.append("U+%04X has category %s but is not in the White_Space list" % (cp, cat))
        if ch in WHITE_SPACE and cat not in ("Zs", "Zl", "Zp", "Cc"):
            bad.append("U+%04X is in the White_Space list but has category %s" % (cp, cat))
    if len(NONASCII_WS) != 19 or len(WHITE_SPACE) != 25:
        bad.append("White_Space list has %d entries" % len(WHITE_SPACE))
    return bad


def has_nonascii_ws(s):
    if s.isascii():
        return False
    for ch in s:
        if ch in NONASCII_WS:
            return True
    return False


def uri_judge(s, strict=False, empty="none"):
    """G.uri_judge plus: a non-ASCII White_Space code point in a component is must-reject in loose mode as well."""
    v, c = G.uri_judge(s, strict, empty)
    if v == "reject" or type(s) is not str:
        return v, c
    if has_nonascii_ws(s):
        return "reject", ICLS
    return v, c


def _value_at(spec, wire, where):
    if "." in where:
        pname, key = where.split(".", 1)
        if spec.dictpos is None or spec.dictpos >= len(wire) or type(wire[spec.dictpos]) is not dict:
            return None
        return wire[spec.dictpos].get(key)
    for i, p in enumerate(spec.layout):
        if p.name == where:
            return wire[i + 1] if i + 1 < len(wire) else None
    return None


def offenders(spec, wire):
    """G.offenders with the URI verdicts of uri_judge() above (same shape: [(where, verdict, input_class)])."""
    offs = G.offenders(spec, wire)
    for o in offs:
        if o[2] == ICLS and o[1] == "grey":
            break
    else:
        return offs
    out = []
    for where, verdict, icls in offs:
        if verdict == "grey" and icls == ICLS:
            v = _value_at(spec, wire, where)
            if type(v) is str and has_nonascii_ws(v):
                verdict = "reject"
        out.append((where, verdict, icls))
    return out


def uri_sites():
    """Every place of the message grammar that carries a URI: [(label, class name, function uri -> wire list)].
    Positions of kind 'uri' and options of type 'uri' of the table, REGISTER/SUBSCRIBE once per match policy."""
    sites = []
    for spec in G.SPECS:
        base = [spec.code]
        for p in spec.layout:
            if p.kind == "id":
                base.append(5)
            elif p.kind == "uri":
                base.append("com.example.a1")
            elif p.kind == "dict":
                base.append({"roles": {spec.opt_by_key["roles"].roles[0]: {}}} if "roles" in spec.opt_by_key else {})
            elif p.kind == "str":
                base.append("x")
            elif p.kind == "extra":
                base.append({})
            elif p.kind == "reqtype":
                base.append(48)
        policies = [None]
        if "match" in spec.opt_by_key:
            policies = [None, "exact", "prefix", "wildcard"]
        for i, p in enumerate(spec.layout):
            if p.kind != "uri":
                continue
            for pol in policies:
                def mk(u, _b=base, _i=i + 1, _pol=pol, _dp=spec.dictpos):
                    w = list(_b)
                    w[_i] = u
                    if _pol is not None:
                        w[_dp] = dict(w[_dp], match=_pol)
                    return w
                sites.append(("%s.%s%s" % (spec.name, p.name, "" if pol is None else "[match=%s]" % pol), spec.name, mk))
        for o in spec.opts:
            if o.typ != "uri":
                continue

            def mk(u, _b=base, _k=o.key, _dp=spec.dictpos):
                w = list(_b)
                w[_dp] = dict(w[_dp], **{_k: u})
                return w
            sites.append(("%s.%s.%s" % (spec.name, spec.dictname, o.key), spec.name, mk))
    return sites


TEMPLATES = [("inner", "com.my%sapp.foo"), ("leading", "%scom.myapp.foo"), ("trailing", "com.myapp.foo%s"), ("alone", "com.%s.foo")]


def codepoints(tier):
    """Code points of the character-class sweep: quick = the whole BMP plus every astral code point that is a separator,
    a decimal digit or a format character; thorough = every code point (surrogates included: JSON can deliver them)."""
    if tier != "quick":
        return range(0x110000)
    out = list(range(0x10000))
    for cp in range(0x10000, 0x110000):
        if unicodedata.category(chr(cp)) in ("Zs", "Zl", "Zp", "Nd", "Cf"):
            out.append(cp)
    return out
