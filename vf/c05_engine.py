"""C05 engine: executes ONE closing scenario against one real endpoint and monitors it online.

A *case* is a JSON object::

    {"role": "server"|"client", "fbd": bool, "echo": bool, "cht": int, "sdt": int,
     "start": "open"|"connecting", "seg": "whole"|"bytewise"|"split2", "fc": bool,
     "react": null|"close"|"msg"|"prepared",          # what the app does from inside onMessage
     "events": [[name, arg, ...], ...],
     # asynchronous opening-handshake family (start == "connecting"):
     "async": null|"onconnect"|"onconnecting",        # server onConnect() / client onConnecting() return a PENDING
                                                      # Deferred (Twisted) / Future (asyncio) the harness resolves with
                                                      # the event ["res", kind]; "oht": openHandshakeTimeout;
     "late": kind,                                    # how a still pending result is resolved AFTER the transport is gone
     "inclose": null|"msg"|"close"|"ping"|"prepared"|"stream"|"raise"|"all",   # what the app does from INSIDE onClose
     "onc_raise": reason-key,                         # client: onConnect() raises RuntimeError(REASONS[key]) -> the LIBRARY
                                                      # fails the connection with a reason text it derives from the exception
     "pmce": bool,                                    # permessage-deflate negotiated (only to reach the library's long
                                                      # "could not decompress ..." failure reason: ["pviol", "badz"])
     "endgame": null|[kind, interval]}                # bounded closure is judged with a peer that is NOT silent: it keeps
                                                      # sending (kind: close|closemix|ping|pong|text|frag|mix) every
                                                      # `interval` seconds of virtual time until the deadline

Event ``["prace", part, ...]`` (parts as for ``pcombo``): the peer's octets are handed to the endpoint when the
transport's connection-lost notification is ALREADY scheduled in front of whatever the adapter scheduled to consume
them.  That is the order CPython's proactor transport produces (``_ProactorReadPipeTransport._loop_reading``: re-arming
the next ``recv_into`` fails with ConnectionResetError -> ``_force_close()`` does ``call_soon(_call_connection_lost)``
and only then, in ``finally``, the octets of the completed read go to ``data_received()``; likewise a completed read
that is delivered after the endpoint's own ``close()``/``abort()`` in the same loop iteration).  On Twisted (no
consumer queue in the adapter) it is dataReceived() immediately followed by connectionLost().

The harness plays the peer with raw octets (``rfc6455_ref.encode_frame``), owns virtual time and
the transport.  Everything asserted is what the property statement says (see checks/c05.py);
the monitor only looks at the boundary: every assignment to ``state`` (recording descriptor of
vf/ws.py), application callbacks, octets accepted by the transport, transport close requests.
"""

import struct

import txaio

from . import rfc6455_ref as ref
from .ws import WS, _adapters

RANK = {4: 0, 1: 1, 3: 2, 2: 3, 0: 4}      # PROXY_CONNECTING < CONNECTING < OPEN < CLOSING < CLOSED
SN = {0: "CLOSED", 1: "CONNECTING", 2: "CLOSING", 3: "OPEN", 4: "PROXY_CONNECTING", None: "None"}
ST_CLOSED, ST_CONNECTING, ST_CLOSING, ST_OPEN = 0, 1, 2, 3

PEER_MASK = bytes.fromhex("37fa213d")
HS_KEY = "dGhlIHNhbXBsZSBub25jZQ=="

# ---- local sendClose() argument space -----------------------------------------------------------
REASONS = {
    "none": None,
    "empty": "",
    "a": "x",
    "b123": "r" * 123,
    "b124": "r" * 124,
    "b500": "r" * 500,
    "mb2@122": "r" * 122 + "é",            # 2-byte code point occupying bytes 123..124
    "mb3@121": "r" * 121 + "€",            # 3-byte code point occupying bytes 122..124
    "mb3@122": "r" * 122 + "€",
    "mb4@120": "r" * 120 + "\U0001f600",        # 4-byte code point occupying bytes 121..124
    "mb4@121": "r" * 121 + "\U0001f600",
    "mb4@122": "r" * 122 + "\U0001f600",
    "mb2x100": "é" * 100,                  # 200 bytes, byte 123 is the middle of a code point
    "mb3x100": "€" * 100,                  # 300 bytes, 123 = 41 whole code points
    "mb4x40": "\U0001f600" * 40,                # 160 bytes, 123 = 30.75 code points
    "mix": "aé€\U0001f600" * 20,
    "short": "boom",
    "b122": "r" * 122,
    "b125": "r" * 125,
    "b126": "r" * 126,
    "mb2@123": "r" * 123 + "é",            # 2-byte code point occupying bytes 124..125 (inside a 125-octet cut)
    "mb3@123": "r" * 123 + "€",
    "mb4@123": "r" * 123 + "\U0001f600",
    "mb2x1+": "x" + "é" * 100,
    "mb3x1+": "x" + "€" * 100,
    "mb4x1+": "x" + "\U0001f600" * 40,
    "mb4x2+": "xy" + "\U0001f600" * 40,
    "mb4x3+": "xyz" + "\U0001f600" * 40,
}
CLOSE_CODES = [None, 1000, 3000, 3999, 4000, 4999,            # accepted by the API
               999, 1001, 1002, 1005, 1006, 1015, 2999, 5000, 0, 65536, "1000"]   # rejected by the API (raise to caller)

# ---- peer close frames ----------------------------------------------------------------------------
# kind -> (class, payload)   class: 'valid' | 'empty' | 'badcode' | 'badutf8' | 'len1' | 'grey'
PEER_CLOSES = {
    "v1000": ("valid", ref.close_payload(1000, "peer bye")),
    "v1000nr": ("valid", ref.close_payload(1000)),
    "v1001": ("valid", ref.close_payload(1001, "€" * 41)),            # 123-byte multi-byte reason
    "v3000": ("valid", ref.close_payload(3000, "p" * 123)),
    "v4999": ("valid", ref.close_payload(4999, "\U0001f600" * 30 + "abc")),  # 123 bytes
    "v1011": ("valid", ref.close_payload(1011, "internal")),
    "g1012": ("grey", ref.close_payload(1012, "restart")),
    "g1014": ("grey", ref.close_payload(1014, "bad gateway")),
    "empty": ("empty", b""),
    "bad999": ("badcode", ref.close_payload(999, "x")),
    "bad1004": ("badcode", ref.close_payload(1004)),
    "bad1005": ("badcode", ref.close_payload(1005, "no status")),
    "bad1006": ("badcode", ref.close_payload(1006)),
    "bad1015": ("badcode", ref.close_payload(1015, "tls")),
    "bad2999": ("badcode", ref.close_payload(2999)),
    "bad5000": ("badcode", ref.close_payload(5000, "x")),
    "bad0": ("badcode", ref.close_payload(0)),
    "badutf8": ("badutf8", struct.pack("!H", 1000) + b"\xff\xfe"),
    "badutf8cut": ("badutf8", struct.pack("!H", 3000) + b"ab\xe2\x82"),
    "badutf8sur": ("badutf8", struct.pack("!H", 1000) + b"\xed\xa0\x80"),
    "len1": ("len1", b"\x03"),
    "big126": ("oversize", struct.pack("!H", 1000) + b"r" * 124),     # control frame with a 126-byte payload
}


def _state_name(s):
    return SN.get(s, str(s))


# ---------------------------------------------------------------------------------------------------
# protocol classes that carry the monitor hooks from construction on (before _connectionMade runs)
# ---------------------------------------------------------------------------------------------------
_CUR = [None]
_BASES = {}


class _HookMixin:
    def __init__(self, *a, **kw):
        super().__init__(*a, **kw)
        m = _CUR[0]
        if m is not None:
            self.__dict__["vf_on_state"] = m.on_state
            self.__dict__["vf_on_app"] = m.on_app
            self.__dict__["vf_mon"] = m

    def onConnecting(self, transport_details):
        # client: "may return a ConnectingRequest (or a future which resolves to one)" before the request is sent
        m = self.__dict__.get("vf_mon")
        if m is not None and m.amode == "onconnecting":
            return m.app_pending("onConnecting")
        return super().onConnecting(transport_details)


def _base(role):
    if role not in _BASES:
        m = _adapters()
        real = m.WebSocketServerProtocol if role == "server" else m.WebSocketClientProtocol
        _BASES[role] = type("C05" + real.__name__, (_HookMixin, real), {})
    return _BASES[role]


class Stop(Exception):
    pass


class Mon:
    """One case: world + endpoint + online monitor."""

    def __init__(self, case, R):
        self.case = case
        self.R = R
        self.role = case["role"]
        self.cht = case["cht"]
        self.sdt = case.get("sdt", 0)
        self.ep = None
        self.proto = None
        self.site = "setup"
        self.cur_state = None
        self.opened = False
        self.closing_t0 = None
        self.transitions = []
        self.wire_off = None            # offset in ep.all_out where WebSocket framing starts
        self.wire_buf = b""
        self.wire_pos = 0               # absolute offset (in all_out) of wire_buf[0]
        self.write_sites = []           # (absolute start offset, site)
        self.close_written = 0
        self.close_frames = []          # (code, reason_bytes, site)
        self.data_after_close = 0
        self.onclose = []               # (vt, wasClean, code, reason, lost_at_that_time)
        self.wal_at_onclose = None
        self.peer_closes = []           # dicts: kind, cls, payload, our_closes_before, state_before, vt
        self.stream_open = False
        self.hs_done = False
        self.n_api_exc = 0
        self.viol = 0
        self.frames_parsed = 0
        self.bounded = None
        self.used_sync = False
        # asynchronous opening handshake (server onConnect / client onConnecting returning a pending future)
        self.amode = case.get("async")
        self.pending = []               # [future, done?] created by the application callback
        self.preres = None              # result chosen before the callback ran -> it returns an already fired future
        self.n_resolved = 0
        self.res_timing = []            # when each result was delivered: while-connecting | after-timeout | after-local-drop | after-lost
        self.evidx = None               # index into ep.events at the time onClose was delivered
        self.inclose = case.get("inclose")
        self.state_in_onclose = None
        self.pmce = bool(case.get("pmce"))
        self.endgame = case.get("endgame")
        self.hs_complete_t1 = None      # client: virtual time at which the FIRST peer close frame (a valid one) was delivered
        self.sdt_judged = False
        self.lost_at = None
        self.n_raced = 0
        self.chat_frag = False

    # ---- violations -------------------------------------------------------------------------------
    def violation(self, clause, what, **detail):
        self.viol += 1
        key = "C05/%s/%s" % (self.role, clause)
        detail.update(fw=self.world.fw, vt=self.world.now(), state=_state_name(self.cur_state),
                      transitions=[[_state_name(a), _state_name(b)] for a, b in self.transitions][-8:],
                      onclose=[list(map(repr, o)) for o in self.onclose])
        self.R.violation(key, what, detail, self.case)

    # ---- hooks ------------------------------------------------------------------------------------
    def now(self):
        return self.world.now()

    def on_state(self, proto, old, new):
        self.cur_state = new
        self.transitions.append((old, new))
        self.R.count("state_assignments")
        self.R.seen("transitions", "%s->%s" % (_state_name(old), _state_name(new)))
        if old is not None and new in RANK and old in RANK and RANK[new] < RANK[old]:
            self.violation("state-backwards/%s-to-%s" % (_state_name(old), _state_name(new)),
                           "state assigned %s while it was %s (at %s)" % (_state_name(new), _state_name(old), self.site),
                           site=self.site)
        if new not in RANK:
            self.violation("state-unknown", "state assigned unknown value %r" % (new,), site=self.site)
        if new == ST_OPEN and not self.opened:
            self.opened = True
            if self.ep is not None:
                self.wire_off = len(self.ep.all_out)
                self.wire_pos = self.wire_off
        if new == ST_CLOSING and self.closing_t0 is None:
            self.closing_t0 = self.now()

    def on_app(self, proto, kind, data):
        self.R.count("app_callbacks")
        if self.onclose:
            if kind == "onClose":
                self.violation("onClose/twice", "onClose delivered a second time (at %s): %r after %r" % (
                    self.site, data, self.onclose[0][1:4]), site=self.site)
            else:
                self.violation("after-onClose/callback-%s" % kind,
                               "application callback %s delivered after onClose (at %s)" % (kind, self.site), site=self.site)
        if kind == "onClose":
            lost = bool(self.ep is not None and self.ep.lost)
            self.onclose.append((self.now(), data[0], data[1], data[2], lost))
            self.wal_at_onclose = self.ep.writes_after_lost if self.ep is not None else 0
            if self.evidx is None and self.ep is not None:
                self.evidx = len(self.ep.events)
            if len(self.onclose) == 1:
                self.R.count("onclose_delivered")
                if not lost:
                    self.violation("onClose/before-transport-lost",
                                   "onClose%r delivered before the transport's connection-lost notification (at %s)" % (
                                       tuple(data), self.site), site=self.site)
                self.check_onclose(*data)
                # what the application sees when it looks at the connection from inside onClose
                self.state_in_onclose = getattr(proto, "state", None)
                self.R.seen("state_inside_onclose", _state_name(self.state_in_onclose))
                self.R.count("state_inside_onclose_checked")
                if self.state_in_onclose != ST_CLOSED:
                    self.violation("onClose/state-not-closed",
                                   "inside onClose (transport gone) the connection's state is %s, not CLOSED (at %s)" % (
                                       _state_name(self.state_in_onclose), self.site), site=self.site)
                if self.inclose:
                    self.act_inside_onclose(self.inclose)
        elif kind == "onMessage":
            react = self.case.get("react")
            if react:
                self.react(react)

    def on_write(self, ep, data):
        self.write_sites.append((len(ep.all_out), self.site))

    # ---- oracle for the onClose arguments ---------------------------------------------------------
    def check_onclose(self, was_clean, code, reason):
        self.scan_output()
        R = self.R
        if was_clean is not True:
            R.count("wasclean_false_checked")
            R.seen("onclose_unclean_codes", str(code))
            return
        R.count("wasclean_true_checked")
        delivered = self.peer_closes
        if self.close_written < 1 and delivered and self.used_sync and self.closing_t0 is not None:
            # grey zone (ASSUMPTIONS): sync=True sends put later frames - our close frame included - into the library's
            # send queue; whether a queued close frame "travelled" is not decidable at the boundary
            R.count("wasclean_true_grey_sync_queue")
            return
        if self.close_written < 1 or not delivered:
            which = "+".join(x for x in ("no-close-frame-sent" if self.close_written < 1 else "",
                                         "no-close-frame-received" if not delivered else "") if x)
            self.violation("wasClean/%s" % which,
                           "onClose(wasClean=True, %r, %r) but close frames did not travel in both directions "
                           "(close frames written by the endpoint: %d, peer close frames delivered to it: %d)" % (
                               code, reason, self.close_written, len(delivered)), site=self.site)
            return
        ok = False
        grey = False
        for pc in delivered:
            cls, payload = pc["cls"], pc["payload"]
            if cls in ("valid", "grey", "badcode", "badutf8"):
                pcode = struct.unpack("!H", payload[:2])[0]
                praw = payload[2:]
            if cls == "valid":
                preason = praw.decode("utf-8")
                if code == pcode and (reason == preason or (not preason and reason in (None, ""))):
                    ok = True
            elif cls == "empty" or cls == "len1":
                if code is None and reason in (None, ""):
                    ok = True
            else:
                # grey zone (documented in ASSUMPTIONS): the peer's close frame was itself invalid / unassigned;
                # what "the peer's code and reason" means for it is left open -> anything is accepted
                grey = True
        if ok:
            R.count("wasclean_true_code_reason_matched")
        elif grey:
            R.count("wasclean_true_grey_invalid_peer_close")
            R.seen("grey_reported", "%s/%r" % ("|".join(sorted(set(p["kind"] for p in delivered))), code))
        else:
            self.violation("wasClean/code-reason-not-peers",
                           "onClose(wasClean=True, %r, %r) but the peer's close frame(s) carried %s" % (
                               code, reason, [p["payload"].hex() for p in delivered]), site=self.site)

    # ---- output scanning --------------------------------------------------------------------------
    def _site_of(self, abs_off):
        site = "?"
        for off, s in self.write_sites:
            if off <= abs_off:
                site = s
            else:
                break
        return site

    def scan_output(self):
        ep = self.ep
        if ep is None or self.wire_off is None:
            return
        have = self.wire_pos + len(self.wire_buf)
        if len(ep.all_out) > have:
            self.wire_buf += bytes(ep.all_out[have:])
        if not self.wire_buf:
            return
        frames, rest = ref.parse_frames(self.wire_buf, allow_partial=True)
        for f in frames:
            self.frames_parsed += 1
            self.R.count("frames_parsed")
            abs_off = self.wire_pos + f.start
            site = self._site_of(abs_off)
            if f.opcode == ref.OP_CLOSE:
                self.close_written += 1
                self.R.count("close_frames_parsed")
                code, reason = None, b""
                if f.length >= 2:
                    code = struct.unpack("!H", f.payload[:2])[0]
                    reason = f.payload[2:]
                self.close_frames.append((code, reason, site))
                if self.close_written > 1:
                    self.violation("close-frame/second/%s" % site,
                                   "a second close frame was written (at %s); first %r" % (site, self.close_frames[0]),
                                   site=site, frames=[(c, r.hex(), s) for c, r, s in self.close_frames])
                if f.length == 1:
                    self.violation("close-frame/payload-1-byte/%s" % site, "close frame with a 1-byte payload written", site=site)
                if f.length > 125 or len(reason) > 123:
                    self.violation("close-frame/reason-too-long/%s" % site,
                                   "close frame with a %d-byte reason written (payload %d)" % (len(reason), f.length), site=site)
                if code is not None:
                    cls = ref.close_code_class(code)
                    self.R.seen("close_codes_written", "%d" % code)
                    if cls == "invalid":
                        self.violation("close-frame/code-invalid/%s" % site,
                                       "close frame written with status code %d which must not appear on the wire" % code,
                                       site=site, code=code)
                    elif cls == "grey":
                        self.R.count("close_code_grey_written")
                if not ref.is_valid_utf8(reason):
                    self.violation("close-frame/reason-not-utf8/%s" % site,
                                   "close frame written whose reason is not valid UTF-8: %s" % reason.hex(), site=site)
                if (self.case.get("onc_raise") and site == "handshake") or (self.pmce and code == 1007 and site == "peer-violation"):
                    # the reason text was produced by the library (connection failed by it), not passed to sendClose()
                    self.R.count("lib_reason_close_frames_checked")
                    self.R.seen("lib_reason_lengths", "%d" % len(reason))
                    if len(reason) >= 120:
                        self.R.count("lib_reason_at_limit_checked")
                if len(reason) >= 120:
                    self.R.count("close_reason_near_limit_checked")
                    self.R.seen("close_reason_lengths", "%d" % len(reason))
            elif f.opcode in (ref.OP_CONT, ref.OP_TEXT, ref.OP_BIN):
                if self.close_written:
                    self.data_after_close += 1
                    # call-site attribution by the unique payload of each local send API (a frame that went
                    # through the library's send queue is written later, from a timer)
                    site = PAYLOAD_SITE.get(bytes(f.payload), site)
                    self.violation("data-after-close/%s" % site,
                                   "data frame (opcode %d, %d bytes) written after the endpoint's close frame (at %s)" % (
                                       f.opcode, f.length, site), site=site)
        consumed = len(self.wire_buf) - len(rest)
        self.wire_pos += consumed
        self.wire_buf = rest

    # ---- helpers ----------------------------------------------------------------------------------
    def deliverable(self):
        ep = self.ep
        if ep.lost:
            return False
        if self.world.fw == "tx":
            return ep.close_requested != "abort"
        return ep.close_requested is None

    def dropped(self):
        return self.ep.lost or self.ep.close_requested is not None

    def api(self, site, fn, *a, **kw):
        prev = self.site
        self.site = site
        try:
            return fn(*a, **kw)
        except Exception as e:      # an exception raised synchronously to the CALLER of a send API is fine
            self.n_api_exc += 1
            self.R.count("api_exceptions")
            self.R.seen("api_exceptions_kinds", "%s/%s/%s" % (site, _state_name(self.cur_state), type(e).__name__))
        finally:
            self.site = prev

    def writes_since_onclose(self):
        """transport.write() calls since onClose was entered / since the last call (every kind: accepted, on a lost,
        aborted or closing transport)"""
        ep = self.ep
        n = 0
        if self.wal_at_onclose is not None and ep.writes_after_lost > self.wal_at_onclose:
            n = ep.writes_after_lost - self.wal_at_onclose
            self.wal_at_onclose = ep.writes_after_lost
        if self.evidx is not None:
            evs = ep.events
            n2 = sum(1 for i in range(self.evidx, len(evs)) if evs[i][1] in WRITE_EVENTS)
            self.evidx = len(evs)
            n = max(n, n2)
        return n

    def act_inside_onclose(self, what):
        """the application touches the connection from inside its close notification"""
        p = self.proto
        R = self.R
        acts = {"msg": ["msg"], "close": ["close"], "ping": ["ping", "pong"], "prepared": ["prepared"], "stream": ["stream"],
                "raise": ["msg", "raise"], "all": ["msg", "ping", "pong", "close", "prepared", "stream"]}[what]
        prev_site = self.site
        for a in acts:
            self.writes_since_onclose()
            st0 = self.cur_state
            if a == "msg":
                self.api("in-onClose/sendMessage", p.sendMessage, b"goodbye", False)
            elif a == "close":
                self.api("in-onClose/sendClose", p.sendClose, 1000, "from onClose")
            elif a == "ping":
                self.api("in-onClose/sendPing", p.sendPing, b"pi")
            elif a == "pong":
                self.api("in-onClose/sendPong", p.sendPong, b"po")
            elif a == "prepared":
                self.api("in-onClose/sendPreparedMessage", lambda: p.sendPreparedMessage(self.prepared()))
            elif a == "stream":
                self.api("in-onClose/beginMessage", p.beginMessage, True)
                self.api("in-onClose/sendMessageFrame", p.sendMessageFrame, b"s1")
                self.api("in-onClose/endMessage", p.endMessage)
            elif a == "raise":
                R.count("inclose_raised")
                self.site = prev_site
                raise RuntimeError("application error inside onClose")
            R.count("inclose_actions")
            n = self.writes_since_onclose()
            if n:
                self.violation("write-after-onClose/in-onClose-%s" % a,
                               "%d transport write(s) from a send API called inside onClose (transport already gone)" % n, site=a)
            if self.cur_state != st0:
                # a transition started from inside the close notification (e.g. OPEN -> CLOSING by sendClose)
                self.violation("onClose/state-changed-inside-%s" % a,
                               "state went %s -> %s by a call made inside onClose" % (_state_name(st0), _state_name(self.cur_state)),
                               site=a)
        self.site = prev_site

    def react(self, what):
        p = self.proto
        if what == "close":
            self.api("sendClose", p.sendClose, 1000, "from onMessage")
        elif what == "msg":
            self.api("sendMessage", p.sendMessage, b"reply", True)
        elif what == "prepared":
            self.api("sendPreparedMessage", p.sendPreparedMessage, self.prepared())

    def prepared(self):
        return self.proto.factory.prepareMessage(b"prepared-payload", isBinary=True)

    def pframe(self, op, payload=b"", **kw):
        if self.role == "server":
            kw.setdefault("mask", PEER_MASK)
        return ref.encode_frame(op, payload, **kw)

    def feed(self, data, site):
        """Feed peer octets under the case's segmentation; returns the number of octets actually delivered."""
        self.site = site
        seg = self.case.get("seg", "whole")
        if seg == "bytewise":
            chunks = [data[i:i + 1] for i in range(len(data))]
        elif seg == "split2" and len(data) > 1:
            c = 1 + (len(data) * 7 // 13) % (len(data) - 1)
            chunks = [data[:c], data[c:]]
        else:
            chunks = [data]
        fed = 0
        for c in chunks:
            if not self.deliverable():
                break
            self.ep.feed(c)
            self.world.settle()
            fed += len(c)
        return fed

    def feed_frames(self, specs, raced=False):
        """specs: list of ('close', kind) | ('raw', bytes) fed as ONE write of the peer.  raced: see feed_raced()."""
        self.scan_output()
        data = b""
        closes = []
        for s in specs:
            if s[0] == "close":
                cls, payload = PEER_CLOSES[s[1]]
                data += self.pframe(ref.OP_CLOSE, payload)
                closes.append({"kind": s[1], "cls": cls, "payload": payload, "our_closes_before": self.close_written,
                               "state_before": self.cur_state, "vt": self.now(), "end": len(data)})
            else:
                data += s[1]
        if not self.hs_done or (not self.opened and not self.awaiting_result()):
            # not received as a WebSocket frame: fed before / instead of the opening handshake.  (While the server's
            # asynchronous onConnect() result is pending the frame is buffered and processed once the handshake completes.)
            closes = []
        if raced:
            self.feed_raced(data, closes)
            return
        fed = self.feed(data, "peer-close" if closes else "peer-frames")
        for c in closes:
            if c["end"] <= fed:      # the whole close frame reached the endpoint while its transport was reading
                self.note_peer_close(c)

    def note_peer_close(self, c):
        if (self.role == "client" and not self.peer_closes and c["cls"] in ("valid", "empty")
                and c["state_before"] in (ST_OPEN, ST_CLOSING) and self.hs_complete_t1 is None and not self.ep.lost):
            # a client has now seen the server's close frame (the first one, and a valid one): from here on only
            # serverConnectionDropTimeout separates it from dropping the TCP connection itself
            self.hs_complete_t1 = c["vt"]
        self.peer_closes.append(c)
        self.R.seen("peer_close_kinds_delivered", "%s/%s" % (c["kind"], _state_name(c["state_before"])))

    def feed_raced(self, data, closes):
        """Hand the peer's octets to the endpoint while the connection-lost notification is ALREADY scheduled ahead of
        whatever the adapter schedules to consume them (see the module docstring: proactor transport order)."""
        ep = self.ep
        R = self.R
        if ep.lost:
            return
        self.site = "peer-frames-raced"
        own = ep.close_requested is not None
        if self.world.fw == "tx":
            if self.deliverable():
                fed = self.feed(data, "peer-frames-raced")
                for c in closes:
                    if c["end"] <= fed:
                        self.note_peer_close(c)
            self.site = "peer-frames-raced"
            if own:
                ep.finish_close()
            else:
                ep.peer_close(clean=False)
            R.count("raced_feeds_tx")
            return
        seg = self.case.get("seg", "whole")
        head = b""
        if seg == "split2" and len(data) > 1:
            cut = 1 + (len(data) * 7 // 13) % (len(data) - 1)
            head, data = data[:cut], data[cut:]
        elif seg == "bytewise" and len(data) > 1:
            head, data = data[:-1], data[-1:]
        if head:
            if own:
                return          # selector/proactor transport that is closing: at most the ONE completed read is still delivered
            fed = self.feed(head, "peer-frames-raced")
            for c in closes:
                if c["end"] <= fed:
                    self.note_peer_close(c)
            closes = [c for c in closes if c["end"] > fed]
            if fed < len(head) or ep.lost or ep.close_requested is not None:
                return
            self.site = "peer-frames-raced"
        for c in closes:
            self.note_peer_close(c)          # handed over completely to data_received() below
        exc = None if own else ConnectionResetError(10054, "connection reset by peer (re-arming the read failed)")
        self.world.loop.call_soon(self._aio_connection_lost, exc)
        ep.log("feed", len(data))
        self.n_raced += 1
        R.count("raced_feeds")
        R.seen("raced_kinds", "%s/%s/%s" % (self.role[:3], "own-close" if own else "reset", _state_name(self.cur_state)))
        if closes:
            R.count("raced_peer_close_frames")
        try:
            ep.proto.data_received(bytes(data))
        except Exception as e:
            ep._escaped("data_received", e)
        self.world.settle()

    def _aio_connection_lost(self, exc):
        """AioEndpoint._lose_with() as a loop callback (it must not re-enter the loop)"""
        ep = self.ep
        if ep.lost:
            return
        if getattr(ep.proto, "receive_queue", None):
            # evidence only: the interleaving the event exists for was really reached
            self.R.count("raced_queue_nonempty_at_lost")
        ep.lost = True
        ep.lost_reason = exc
        ep.log("connection_lost", type(exc).__name__ if exc is not None else None)
        try:
            ep.transport._closing = True
        except Exception:
            pass
        try:
            ep.proto.connection_lost(exc)
        except Exception as e:
            ep._escaped("connection_lost", e)

    # ---- events -----------------------------------------------------------------------------------
    def ev_hs(self):
        if self.hs_done:
            return
        self.site = "handshake"
        if self.role == "server":
            self.hs_done = True
            req, _ = ref.client_request(key=HS_KEY, protocols=["p1", "p2"] if self.amode else None,
                                        extensions="permessage-deflate" if self.pmce else None)
            if self.deliverable():
                self.ep.feed(req)
        else:
            parsed = ref.parse_http_head(bytes(self.ep.all_out))
            if self.amode and not parsed:
                return          # the client has not sent its request yet (onConnecting() pending): a server has nothing to answer
            self.hs_done = True
            if parsed and self.deliverable():
                key = (parsed[1].get("sec-websocket-key") or [HS_KEY])[0]
                offered = self.pmce and bool(parsed[1].get("sec-websocket-extensions"))
                self.ep.feed(ref.server_response(key, extensions="permessage-deflate" if offered else None))
        self.world.settle()

    # ---- asynchronous application decisions during the opening handshake ------------------------------
    def new_future(self):
        if self.world.fw == "tx":
            from twisted.internet.defer import Deferred

            return Deferred()
        return self.world.loop.create_future()

    def app_pending(self, which):
        """called from inside the application callback (server onConnect / client onConnecting): returns a future"""
        fut = self.new_future()
        rec = [fut, False, which]
        self.pending.append(rec)
        self.R.count("async_callbacks_pending")
        if self.preres is not None:
            kind, self.preres = self.preres, None
            self.R.count("async_resolved_before_callback")
            self._resolve(rec, kind)
        return fut

    def script_on_connect(self, proto, request):
        return self.app_pending("onConnect")

    def script_on_connect_raise(self, proto, response):
        # client: "give the client a chance to bail out" - the library fails the connection with a reason IT derives from
        # the exception (asyncio: its text; Twisted: the Failure's text, which embeds it)
        self.R.count("client_onconnect_raised")
        raise RuntimeError(REASONS[self.case["onc_raise"]])

    def awaiting_result(self):
        return any(not r[1] for r in self.pending)

    def _resolve(self, rec, kind):
        from autobahn.websocket.types import ConnectingRequest, ConnectionDeny

        rec[1] = True
        fut = rec[0]
        if self.role == "server":
            val = {"none": None, "proto": "p1", "tuple": ("p2", {"X-C05": "yes"}), "tuple0": (None, {"X-C05": ["a", "b"]}),
                   "deny": ConnectionDeny(403, "denied by application"), "exc": RuntimeError("application failed")}[kind]
        else:
            val = {"none": None, "req": ConnectingRequest(host="127.0.0.1", port=9000, resource="/c05", headers={"X-C05": "yes"}),
                   "exc": RuntimeError("application failed")}[kind]
        if isinstance(val, Exception):
            if self.world.fw == "tx":
                from twisted.python.failure import Failure

                fut.errback(Failure(val))
            else:
                fut.set_exception(val)
        elif self.world.fw == "tx":
            fut.callback(val)
        else:
            fut.set_result(val)

    def ev_res(self, kind="none"):
        """the application's pending decision arrives"""
        if not self.amode:
            return
        if self.role == "client" and kind not in ("none", "req", "exc"):
            kind = "exc" if kind in ("deny", "exc") else "none"
        fail = kind in ("deny", "exc")
        if self.role == "server":
            self.site = "onConnect-denied" if fail else "onConnect-accepted"
        else:
            self.site = "onConnecting-failed" if fail else "onConnecting-resolved"
        rec = next((r for r in self.pending if not r[1]), None)
        if rec is None:
            if not self.pending:
                self.preres = kind      # decided before the library asked: the callback will return an already fired future
            return
        ep = self.ep
        if ep.lost:
            timing = "after-lost"
        elif self.cur_state == ST_CLOSED:
            timing = "after-timeout" if getattr(self.proto, "wasOpenHandshakeTimeout", False) else "after-local-drop"
        else:
            timing = "while-connecting"
        self.n_resolved += 1
        self.res_timing.append(timing)
        self.R.count("async_resolved_" + timing.replace("-", "_"))
        self.R.seen("async_resolutions", "%s/%s/%s" % (self.role, kind, timing))
        was_open = self.opened
        self._resolve(rec, kind)
        self.world.settle()
        if not was_open and self.opened:
            self.R.count("async_opened_by_result")

    def ev_close(self, code=None, reason="none"):
        r = REASONS[reason]
        self.api("sendClose", self.proto.sendClose, code, r)

    def ev_msg(self, kind="text"):
        p = self.proto
        if kind == "text":
            self.api("sendMessage", p.sendMessage, b"hello", False)
        elif kind == "bin":
            self.api("sendMessage", p.sendMessage, b"\x00\x01\x02", True)
        elif kind == "sync":
            if self.cur_state == ST_OPEN:
                self.used_sync = True
            self.api("sendMessage", p.sendMessage, b"sync-payload", True, None, True)
        elif kind == "frag":
            self.api("sendMessage", p.sendMessage, b"abcdefgh", False, 3)
        else:
            raise ValueError(kind)

    def ev_ping(self):
        self.api("sendPing", self.proto.sendPing, b"pi")

    def ev_pong(self):
        self.api("sendPong", self.proto.sendPong, b"po")

    def ev_prepared(self):
        self.api("sendPreparedMessage", lambda: self.proto.sendPreparedMessage(self.prepared()))

    def ev_sbegin(self):
        p = self.proto
        was_open = self.cur_state == ST_OPEN
        if not self.stream_open:
            self.api("beginMessage", p.beginMessage, True)
            if was_open:
                self.stream_open = True
        self.api("sendMessageFrame", p.sendMessageFrame, b"s1")

    def ev_sframe(self):
        if self.stream_open:
            self.api("sendMessageFrame", self.proto.sendMessageFrame, b"s2s2")

    def ev_send(self):
        if self.stream_open:
            was_open = self.cur_state == ST_OPEN
            self.api("endMessage", self.proto.endMessage)
            if was_open:
                self.stream_open = False

    def ev_pclose(self, kind="v1000"):
        self.feed_frames([("close", kind)])

    def ev_pdata(self, kind="text"):
        if kind == "text":
            d = self.pframe(ref.OP_TEXT, b"peer text")
        elif kind == "bin":
            d = self.pframe(ref.OP_BIN, b"\xff\x00peer")
        elif kind == "fragstart":
            d = self.pframe(ref.OP_TEXT, b"frag", fin=False)
        elif kind == "cont":
            d = self.pframe(ref.OP_CONT, b"ment", fin=True)
        elif kind == "badutf8":
            d = self.pframe(ref.OP_TEXT, b"\xc3\x28")
        else:
            raise ValueError(kind)
        self.feed_frames([("raw", d)])

    def ev_pping(self):
        self.feed_frames([("raw", self.pframe(ref.OP_PING, b"peer-ping"))])

    def ev_ppong(self):
        self.feed_frames([("raw", self.pframe(ref.OP_PONG, b"peer-pong"))])

    def ev_pviol(self, kind="opcode"):
        if kind == "opcode":
            d = self.pframe(3, b"xx")
        elif kind == "rsv":
            d = self.pframe(ref.OP_TEXT, b"xx", rsv=2)
        elif kind == "mask":
            d = ref.encode_frame(ref.OP_TEXT, b"xx", mask=None if self.role == "server" else PEER_MASK)
        elif kind == "fragctl":
            d = self.pframe(ref.OP_PING, b"", fin=False)
        elif kind == "bigping":
            d = self.pframe(ref.OP_PING, b"p" * 126)
        elif kind == "ctlopcode":
            d = self.pframe(11, b"")
        elif kind == "badz":
            # RSV1 text frame whose payload is no deflate stream: with permessage-deflate negotiated the library fails the
            # connection with ITS OWN long reason text ("could not decompress payload of compressed message [...]: ...")
            d = self.pframe(ref.OP_TEXT, b"\xff\xff\xff\xff no deflate stream", rsv=4)
        else:
            raise ValueError(kind)
        self.feed_frames([("raw", d)])

    def ev_pcombo(self, *parts):
        """several peer frames in ONE read: parts are 'c:<close kind>' | 'text' | 'ping' | 'viol' | 'frag' | 'pong'"""
        self.feed_frames(self.combo_specs(parts))

    def ev_prace(self, *parts):
        """peer frames handed over when connection-lost is already scheduled (module docstring)"""
        self.feed_frames(self.combo_specs(parts), raced=True)

    def combo_specs(self, parts):
        specs = []
        for p in parts:
            if p.startswith("c:"):
                specs.append(("close", p[2:]))
            elif p == "text":
                specs.append(("raw", self.pframe(ref.OP_TEXT, b"combo text")))
            elif p == "ping":
                specs.append(("raw", self.pframe(ref.OP_PING, b"cp")))
            elif p == "viol":
                specs.append(("raw", self.pframe(3, b"")))
            elif p == "frag":
                specs.append(("raw", self.pframe(ref.OP_TEXT if not self.chat_frag else ref.OP_CONT, b"fr", fin=False)))
                self.chat_frag = True
            elif p == "pong":
                specs.append(("raw", self.pframe(ref.OP_PONG, b"cq")))
            else:
                raise ValueError(p)
        return specs

    def ev_tick(self):
        self.site = "timer"
        if not self.world.fire_next_timer():
            self.world.advance(1.0)

    def ev_adv(self, dt=1.0):
        self.site = "timer"
        self.world.advance(float(dt))

    def ev_pdrop(self, clean=False):
        self.site = "peer-tcp-drop"
        self.ep.peer_close(clean=bool(clean))

    def ev_fin(self):
        self.site = "own-drop-delivered"
        self.ep.finish_close()

    # ---- per-event bookkeeping ----------------------------------------------------------------------
    def after_event(self, name):
        self.world.settle()
        self.scan_output()
        ep = self.ep
        # the endpoint log sees every transport.write() call, also those on a transport that was aborted before it
        # was lost (which the fake Twisted transport does not count in writes_after_lost)
        n = self.writes_since_onclose() if self.onclose else 0
        detached = 0
        if self.world.escaped:
            for who, e in self.world.escaped:
                self.R.count("escaped_to_framework")
                self.R.seen("escaped_kinds", "%s/%s/%s" % (name, type(e.exc).__name__, str(e.exc)[:60]))
                if self.onclose and isinstance(e.exc, AttributeError) and "'NoneType' object has no attribute 'write'" in str(e.exc):
                    # asyncio adapter: transport is detached (None) in connection_lost(); the attempted write surfaces
                    # as this AttributeError in the event loop's exception handler
                    detached += 1
            del self.world.escaped[:]
        if n or detached:
            self.violation("write-after-onClose/%s" % self.last_api_site(name),
                           "%d transport write(s) after onClose had been delivered (during %s)%s" % (
                               n or detached, name, " [attempted on the detached asyncio transport]" if detached and not n else ""),
                           site=name)

        self.check_server_drop_deadline()

    def check_server_drop_deadline(self):
        """Client that has seen the server's (valid, first) close frame at t1: serverConnectionDropTimeout seconds later it
        must have dropped the TCP connection itself - whatever else the server sent in the meantime."""
        t1 = self.hs_complete_t1
        if t1 is None or self.sdt_judged or self.sdt <= 0:
            return
        ep = self.ep
        if ep.lost and self.lost_at is None:
            self.lost_at = next((e[0] for e in ep.events if e[1] == "connection_lost"), self.now())
        limit = t1 + self.sdt + SDT_SLACK
        own = ep.close_requested_at
        if own is not None and (self.lost_at is None or own <= self.lost_at):
            self.sdt_judged = True
            self.R.count("sdt_tight_evaluated")
            if own > limit:
                self.violation("bounded-closure/server-drop-timeout-exceeded",
                               "client: the server's close frame was delivered at t=%.3f (closing handshake complete), the server "
                               "did not drop TCP; with serverConnectionDropTimeout=%d the client dropped the connection only at "
                               "t=%.3f" % (t1, self.sdt, own), t1=t1, dropped_at=own)
            else:
                self.R.count("sdt_tight_own_drop_in_time")
                if own >= t1 + self.sdt - 1e-6:
                    self.R.count("sdt_tight_dropped_by_the_timer")
        elif self.lost_at is not None:
            self.sdt_judged = True          # the peer / network took the transport away first
            self.R.count("sdt_tight_preempted_by_transport_loss")
        elif self.now() > limit:
            self.sdt_judged = True
            self.R.count("sdt_tight_evaluated")
            self.violation("bounded-closure/server-drop-timeout-exceeded",
                           "client: the server's close frame was delivered at t=%.3f (closing handshake complete), the server did "
                           "not drop TCP; at t=%.3f (serverConnectionDropTimeout=%d) the client has still not dropped the "
                           "connection (state %s, pending timers %r)" % (
                               t1, self.now(), self.sdt, _state_name(self.cur_state), self.world.pending_timers()), t1=t1)

    def last_api_site(self, name):
        if name == "res":
            return self.site
        return EVENT_SITE.get(name, name)

    def step(self, ev):
        name = ev[0]
        self.site = EVENT_SITE.get(name, name)
        getattr(self, "ev_" + name)(*ev[1:])
        self.after_event(name)

    # ---- bounded closure ----------------------------------------------------------------------------
    def bounded_closure(self):
        """state is CLOSING, transport neither dropped nor lost; from now on the peer is silent - or (case['endgame']) keeps
        sending without ever dropping TCP."""
        R = self.R
        t0 = self.closing_t0
        pcs = self.peer_closes
        if any(p["cls"] == "grey" and p["our_closes_before"] == 0 for p in pcs):
            # 1012-1014: whether the endpoint must treat the frame as a close or as a violation is open -> no deadline asserted
            R.count("bounded_skipped_grey_peer_code")
            return
        replied_valid = any(p["cls"] in ("valid", "empty") and p["our_closes_before"] == 0 for p in pcs)
        any_peer_close = bool(pcs)
        eg = self.endgame
        applicable = []
        if not replied_valid:
            applicable.append(("cht", self.cht))
        if self.role == "client" and (any_peer_close or (eg and eg[0] in CHATTER_WITH_CLOSE)):
            applicable.append(("sdt", self.sdt))
        if replied_valid:
            phase = "replied-to-peer-close"
        elif any(p["our_closes_before"] == 0 for p in pcs):
            phase = "failed-after-invalid-peer-close"
        elif any_peer_close:
            phase = "initiated-reply-received"
        else:
            phase = "initiated-no-reply"
        R.seen("bounded_phases", "%s/%s" % (self.role, phase))
        if any(v <= 0 for _, v in applicable):
            R.count("bounded_vacuous_timeout_disabled")
            # informational only: does it close anyway?
            self.world.advance(30.0)
            self.after_event("silence")
            return
        deadline = t0 + sum(v for _, v in applicable) + 1.0
        fed = 0
        if eg:
            # the peer is NOT silent: it keeps sending until the deadline (the bound does not depend on what it sends)
            kind, dt = eg[0], float(eg[1])
            k = 0
            while self.now() + dt < deadline and not self.dropped():
                self.site = "timer"
                self.world.advance(dt)
                self.after_event("silence")
                if self.dropped() or not self.deliverable():
                    break
                n0 = len(self.ep.events)
                self.step(["pcombo", CHATTER[kind][k % len(CHATTER[kind])]])
                k += 1
                if any(e[1] == "feed" for e in self.ep.events[n0:]):
                    fed += 1
            R.count("bounded_chatty_frames_fed", fed)
            R.seen("bounded_chatter", "%s/%s/%s/%s" % (self.role, phase, kind, dt))
        if deadline > self.now():
            self.site = "timer"
            self.world.advance_to(deadline)
        self.after_event("silence")
        R.count("bounded_deadlines_evaluated")
        if eg and fed:
            R.count("bounded_chatty_evaluated")
            phase += "/peer-keeps-sending"
        for k, _ in applicable:
            R.count("bounded_%s_evaluated" % k)
        if not applicable:
            R.count("bounded_no_timeout_applicable_evaluated")
        self.bounded = (phase, t0, deadline)
        if not self.dropped() or self.cur_state != ST_CLOSED:
            self.violation("bounded-closure/%s" % phase,
                           "CLOSING since t=%.3f, %s; at t=%.3f (= t0 + %s + 1s) the connection is still %s and the "
                           "transport was not dropped (pending timers: %r)" % (
                               t0, ("peer kept sending %r every %s s (%d reads) but never dropped TCP" % (eg[0], eg[1], fed))
                               if eg and fed else "peer silent", self.now(), "+".join("%s=%d" % a for a in applicable) or "0",
                               _state_name(self.cur_state), self.world.pending_timers()),
                           phase=phase, applicable=applicable)
        else:
            R.count("bounded_closed_in_time")

    # ---- the whole case ---------------------------------------------------------------------------
    def run(self):
        case, R = self.case, self.R
        R.count("evaluations")
        w = WS()
        self.w = w
        self.world = w.world
        opts = {"failByDrop": bool(case["fbd"]), "echoCloseCodeReason": bool(case["echo"]),
                "closeHandshakeTimeout": self.cht}
        if "oht" in case:
            opts["openHandshakeTimeout"] = case["oht"]
        if self.pmce:
            from autobahn.websocket.compress import PerMessageDeflateOffer, PerMessageDeflateOfferAccept

            if self.role == "server":
                opts["perMessageCompressionAccept"] = lambda offers: next(
                    (PerMessageDeflateOfferAccept(o) for o in offers if isinstance(o, PerMessageDeflateOffer)), None)
            else:
                opts["perMessageCompressionOffers"] = [PerMessageDeflateOffer()]
        _CUR[0] = self
        try:
            if self.role == "server":
                f = w.server_factory(options=opts, protocol_base=_base("server"))
                if self.amode == "onconnect":
                    f.vf_on_connect = self.script_on_connect
            else:
                opts["serverConnectionDropTimeout"] = self.sdt
                f = w.client_factory(options=opts, protocol_base=_base("client"))
                if case.get("onc_raise"):
                    f.vf_on_connect = self.script_on_connect_raise
            self.ep = w.attach(f, self.role)
        finally:
            _CUR[0] = None
        self.ep.on_write = self.on_write
        self.proto = self.ep.proto
        self.world.settle()
        if case.get("start", "open") == "open":
            self.ev_hs()
            self.after_event("hs")
        for ev in case["events"]:
            self.step(ev)
        # ---- end game: the peer stays silent
        ep = self.ep
        if not ep.lost and self.cur_state == ST_CLOSING and ep.close_requested is None:
            self.bounded_closure()
        if not ep.lost:
            if ep.close_requested is not None:
                self.site = "own-drop-delivered"
                ep.finish_close()
            else:
                self.site = "peer-tcp-drop"
                ep.peer_close(clean=bool(case.get("fc", True)))
            self.after_event("final-drop")
        # ---- the application's decision arrives only now, after the transport is gone
        if self.amode and self.awaiting_result():
            self.R.count("async_late_resolutions")
            self.ev_res(case.get("late", "none"))
            self.after_event("res")
        # ---- after the end: leftovers of timers and every send API once more
        self.site = "timer"
        self.world.advance(12.0)
        self.after_event("late-timers")
        for name in ("msg", "ping", "pong", "close", "prepared", "sbegin", "sframe", "send"):
            self.site = EVENT_SITE.get(name, name)
            if name == "close":
                self.ev_close(1000, "a")
            else:
                getattr(self, "ev_" + name)()
            self.after_event(name)
        self.world.advance(2.0)
        self.after_event("late-timers")
        # ---- final verdicts
        if len(self.onclose) == 0:
            if self.amode and not self.opened:
                # grey (ASSUMPTIONS): whether a connection that never became OPEN owes the application a close notification
                R.count("onclose_missing_never_open_grey")
            else:
                self.violation("onClose/missing", "connection-lost was delivered but onClose never fired", lost=ep.lost)
        if self.cur_state != ST_CLOSED:
            self.violation("not-closed-after-transport-lost", "transport is gone but state is %s" % _state_name(self.cur_state))
        ic = getattr(self.proto, "is_closed", None)
        if ic is not None:
            R.count("is_closed_checked")
            done = bool(ic.called) if self.world.fw == "tx" else bool(ic.done())
            if not done:
                self.violation("is_closed/unresolved-after-transport-lost",
                               "transport is gone and onClose %s but the is_closed future is still pending" % (
                                   "ran" if self.onclose else "never ran"))
        R.seen("final_paths", "%s/%s" % (self.role, ">".join(_state_name(b) for _, b in self.transitions)))
        if self.onclose:
            R.seen("onclose_shapes", "%s/%s/%s" % (self.role, self.onclose[0][1], self.onclose[0][2]))
        return self

    def cleanup(self):
        w = getattr(self, "world", None)
        if w is not None and hasattr(w, "close"):
            w.close()


SDT_SLACK = 0.25        # serverConnectionDropTimeout is armed with txaio.call_later (exact on the virtual clock)
CHATTER = {
    "close": ["c:v1000"], "closemix": ["c:v1000", "c:v3000", "c:empty", "c:v1001"], "ping": ["ping"], "pong": ["pong"],
    "text": ["text"], "frag": ["frag"], "mix": ["ping", "c:v1000nr", "text", "pong", "c:v4999"],
}
CHATTER_WITH_CLOSE = ("close", "closemix", "mix")

PAYLOAD_SITE = {b"prepared-payload": "sendPreparedMessage", b"hello": "sendMessage", b"\x00\x01\x02": "sendMessage",
                b"sync-payload": "sendMessage", b"abc": "sendMessage", b"def": "sendMessage", b"gh": "sendMessage",
                b"reply": "sendMessage", b"s1": "sendMessageFrame", b"s2s2": "sendMessageFrame", b"": "endMessage"}

WRITE_EVENTS = ("write", "write-after-lost", "write-after-abort", "write-after-close")

EVENT_SITE = {
    "close": "sendClose", "msg": "sendMessage", "ping": "sendPing", "pong": "sendPong",
    "prepared": "sendPreparedMessage", "sbegin": "beginMessage", "sframe": "sendMessageFrame", "send": "endMessage",
    "pclose": "peer-close", "pdata": "peer-data", "pping": "peer-ping", "ppong": "peer-pong", "pviol": "peer-violation",
    "pcombo": "peer-frames", "tick": "timer", "adv": "timer", "pdrop": "peer-tcp-drop", "fin": "own-drop-delivered",
    "hs": "handshake", "res": "async-result", "prace": "peer-frames-raced",
}


def run_case(case, R):
    m = Mon(case, R)
    try:
        m.run()
    finally:
        m.cleanup()
    return m
