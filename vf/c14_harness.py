"""C14 harness: a REAL ``autobahn.<fw>.component.Component`` whose only contact with the network - the
client endpoint's ``connect()`` (Twisted: an ``IStreamClientEndpoint`` object handed in as the transport's
``endpoint``; asyncio: ``loop.create_connection`` / ``create_unix_connection`` stubbed as instance
attributes of the virtual loop) - is owned by the harness.

Every connection attempt is recorded with its virtual time stamp and stays *pending* until the driver decides
its fate (refuse / establish).  An established attempt gets a ``RouterConn`` (a ``vf.wamp_harness.RouterPeer``
that adopts the protocol instance the component's own factory built) through which the harness plays the
router on the wire: transport handshake, HELLO -> WELCOME | ABORT, GOODBYE, TCP loss.

Nothing in here decides the property; it only produces the observation log that checks/c14.py compares with
its reference of the retry policy.
"""

import random as _random_mod

import txaio

from .wamp_harness import Outcome, RouterPeer
from .world import make_world

EVENTS = ("connect", "join", "ready", "leave", "disconnect")


class RouterConn(RouterPeer):
    """Scripted router on a connection that the component under test created itself."""

    def __init__(self, world, ep, kind, serializer):
        RouterPeer.__init__(self, None, transport=kind, serializer=serializer, world=world)
        self.ep = ep
        self.close_replied = False

    def connect(self, complete_handshake=True):      # never creates its own factory
        raise RuntimeError("RouterConn adopts an existing endpoint")

    def drain_close(self):
        """Compliant router reaction to whatever closing the client has started; returns True when the
        connection is gone."""
        for _ in range(6):
            if self.ep.lost:
                return True
            self._pull()
            if self.kind == "websocket" and self.ws_close_frames and not self.close_replied:
                self.close_replied = True
                from . import rfc6455_ref as ref
                self.ep.feed(ref.encode_frame(ref.OP_CLOSE, ref.close_payload(1000, "")))
                self.world.settle()
                self._pull()
                # the server drops TCP after the closing handshake
                if not self.ep.lost:
                    if self.ep.close_requested:
                        self.ep.finish_close()
                    else:
                        self.ep.peer_close(True)
                self.world.settle()
                continue
            if self.ep.close_requested:
                self.ep.finish_close()
                self.world.settle()
                continue
            break
        return self.ep.lost


class Pending:
    """One connection attempt that the 'network' has not answered yet."""

    def __init__(self, net, n, tidx, t, factory, resolve_ok, resolve_err):
        self.net = net
        self.n = n
        self.tidx = tidx
        self.t = t
        self.factory = factory
        self._ok = resolve_ok
        self._err = resolve_err
        self.answered = False
        self.cancelled = False

    def _usable(self):
        # a connect that the component cancelled (asyncio: wait_for timeout) or that was answered before cannot
        # produce a connection any more - a driver doing that would manufacture executions no network can
        if self.cancelled or self.answered:
            raise RuntimeError("harness misuse: attempt %d was already %s" % (self.n, "cancelled" if self.cancelled else "answered"))

    def refuse(self, exc=None):
        self._usable()
        self.answered = True
        self.net.log(("refused", self.n, self.tidx))
        self._err(exc or ConnectionRefusedError(111, "Connection refused"))
        self.net.world.settle()

    def establish(self, defer_result=False):
        """TCP comes up: build the protocol with the component's factory, attach a fake transport, complete
        the connect future with what the real endpoint / create_connection would deliver.

        ``defer_result=True`` (asyncio only) leaves the future of create_connection() pending after
        connection_made(): on a real loop the awaiting task resumes several iterations after connection_made(),
        and data_received() / transport.close() / connection_lost() may all be delivered in between.  The driver
        plays that and then calls ``complete_connect()``.  (Twisted endpoints fire their Deferred synchronously
        right after makeConnection(), and connectionLost is never delivered re-entrantly, so the ordering does not
        exist there.)"""
        self._usable()
        self.answered = True
        world = self.net.world
        tcfg = self.net.tcfgs[self.tidx]
        if world.fw == "tx":
            if defer_result:
                raise RuntimeError("harness misuse: a Twisted endpoint Deferred cannot fire after connectionLost")
            from twisted.internet.address import IPv4Address
            proto = self.factory.buildProtocol(IPv4Address("TCP", "127.0.0.1", 9000 + self.tidx))
            ep = world.attach_protocol(proto, "conn%d" % self.n, addr=("127.0.0.1", 50000 + self.n),
                                       peer=("127.0.0.1", 9000 + self.tidx))
            self._result = proto
        else:
            proto = self.factory()
            ep = world.attach_protocol(proto, "conn%d" % self.n, addr=("127.0.0.1", 50000 + self.n),
                                       peer=("127.0.0.1", 9000 + self.tidx))
            self._result = (ep.transport, proto)
        self.ep = ep
        self.result_delivered = False
        if not defer_result:
            self.complete_connect()
        world.settle()
        rc = RouterConn(world, ep, tcfg["kind"], tcfg["ser"])
        rc.attempt = self.n
        rc.tidx = self.tidx
        self.net.conns.append(rc)
        self.net.log(("established", self.n, self.tidx))
        return rc

    def complete_connect(self):
        """Deliver the result of the connect call (the future of create_connection / the endpoint Deferred)."""
        if self.result_delivered:
            return
        self.result_delivered = True
        if self.ep.lost and hasattr(self.ep.transport, "_closing"):
            # a real selector transport is 'closing' once the connection is gone (_force_close / close on EOF);
            # vf.world's fake only sets the flag on the protocol's own close()/abort()
            self.ep.transport._closing = True
        if self.ep.lost or self.ep.close_requested:
            self.net.log(("connect-result-after-teardown", self.n, self.tidx))
        self._ok(self._result)
        self.net.world.settle()


class Net:
    """The boundary to the network + the observation log of one component run."""

    def __init__(self, tcfgs, strict_reactor=True):
        self.world = make_world()
        self.tcfgs = tcfgs
        self.attempts = []        # {"n", "tidx", "t"}
        self.pending = []
        self.conns = []
        self.events = []          # (virtual time, tuple)
        self.negative_delays = []
        self.t0 = self.world.now()
        if self.world.fw == "tx":
            self._install_tx(strict_reactor)
        else:
            self._install_aio()

    def now(self):
        return self.world.now() - self.t0

    def log(self, ev):
        self.events.append((round(self.now(), 9), ev))

    # -- Twisted --------------------------------------------------------------------------
    def _install_tx(self, strict):
        clock = self.world.clock
        orig = clock.callLater
        net = self

        def callLater(delay, fn, *a, **kw):
            if delay < 0:
                net.negative_delays.append(delay)
                net.log(("negative-callLater", delay))
                if strict:
                    # every real reactor: twisted.internet.base.ReactorBase.callLater
                    assert delay >= 0, f"{delay} is not greater than or equal to 0 seconds"
            return orig(delay, fn, *a, **kw)

        clock.callLater = callLater
        self.reactor = clock

    def tx_endpoint(self, tidx):
        from twisted.internet.defer import Deferred
        from twisted.internet.interfaces import IStreamClientEndpoint
        from zope.interface import implementer

        net = self

        @implementer(IStreamClientEndpoint)
        class FakeClientEndpoint:
            def __repr__(self):
                return "<FakeClientEndpoint %d>" % tidx

            def connect(self, factory):
                p = None

                def cancel(d):
                    p.cancelled = True
                    net.log(("connect-cancelled", p.n))

                d = Deferred(cancel)
                p = net._new_pending(tidx, factory, d.callback, d.errback)
                return d

        return FakeClientEndpoint()

    # -- asyncio ----------------------------------------------------------------------------
    def _install_aio(self):
        loop = self.world.loop
        net = self
        self.reactor = loop
        orig_call_at = loop.call_at

        def call_at(when, cb, *a, **kw):
            if when < loop.time() - 1e-12:
                net.negative_delays.append(when - loop.time())
                net.log(("negative-call_at", when - loop.time()))
            return orig_call_at(when, cb, *a, **kw)

        loop.call_at = call_at

        def _fut(tidx, protocol_factory):
            f = loop.create_future()

            def ok(v):
                if not f.done():
                    f.set_result(v)

            def err(e):
                if not f.done():
                    f.set_exception(e)

            p = net._new_pending(tidx, protocol_factory, ok, err)

            def done(fut):
                if fut.cancelled():
                    p.cancelled = True
                    net.log(("connect-cancelled", p.n))
            f.add_done_callback(done)
            return f

        def create_connection(protocol_factory=None, host=None, port=None, **kw):
            tidx = net._tidx_by_port.get(port)
            if tidx is None:
                raise RuntimeError("harness: unknown port %r" % (port,))
            return _fut(tidx, protocol_factory)

        def create_unix_connection(protocol_factory=None, path=None, **kw):
            tidx = net._tidx_by_path.get(path)
            if tidx is None:
                raise RuntimeError("harness: unknown path %r" % (path,))
            return _fut(tidx, protocol_factory)

        self._tidx_by_port = {9000 + i: i for i in range(len(self.tcfgs))}
        self._tidx_by_path = {"/tmp/c14-%d.sock" % i: i for i in range(len(self.tcfgs))}
        loop.create_connection = create_connection
        loop.create_unix_connection = create_unix_connection

    # -- common --------------------------------------------------------------------------------
    def _new_pending(self, tidx, factory, ok, err):
        n = len(self.attempts)
        t = self.now()
        self.attempts.append({"n": n, "tidx": tidx, "t": t})
        p = Pending(self, n, tidx, t, factory, ok, err)
        self.pending.append(p)
        self.log(("attempt", n, tidx))
        return p

    def take_pending(self):
        if self.pending:
            return self.pending.pop(0)
        return None

    def transport_config(self, i):
        """The dict handed to Component(transports=[...]) for transport i."""
        t = self.tcfgs[i]
        d = {"type": t["kind"]}
        tls = bool(t.get("tls"))      # a TLS transport: wss:// / rss:// URL, (asyncio) endpoint dict with "tls": True
        if t["kind"] == "websocket":
            d["url"] = "%s://127.0.0.1:%d/ws" % ("wss" if tls else "ws", 9000 + i)
            d["serializers"] = [t["ser"]]
        else:
            d["url"] = "%s://127.0.0.1:%d" % ("rss" if tls else "rs", 9000 + i)
            d["serializer"] = t["ser"]
        if self.world.fw == "tx":
            # (a user-supplied IStreamClientEndpoint - e.g. SSL4ClientEndpoint / wrapClientTLS(...) for a TLS transport)
            d["endpoint"] = self.tx_endpoint(i)
        else:
            how = t.get("ep", "url")
            if tls and (how == "unix" or (how == "url" and t["kind"] == "rawsocket")):
                how = "dict"      # asyncio: TLS over a unix socket / from an rss:// URL is not something the component offers
            if how == "dict":
                d["endpoint"] = {"type": "tcp", "host": "127.0.0.1", "port": 9000 + i}
                if tls:
                    d["endpoint"]["tls"] = True
            elif how == "unix":
                d["endpoint"] = {"type": "unix", "path": "/tmp/c14-%d.sock" % i}
        for k in ("max_retries", "max_retry_delay", "initial_retry_delay", "retry_delay_growth", "retry_delay_jitter"):
            if k in t:
                d[k] = t[k]
        return d

    def close(self):
        if hasattr(self.world, "close"):
            self.world.close()


class JitterTap:
    """Records (does not change) the draws of random.normalvariate made by the retry policy."""

    def __init__(self):
        self.draws = []
        self._orig = None

    def __enter__(self):
        self._orig = _random_mod.normalvariate
        tap = self

        def normalvariate(mu=0.0, sigma=1.0):
            v = tap._orig(mu, sigma)
            tap.draws.append((mu, sigma, v))
            return v

        _random_mod.normalvariate = normalvariate
        return self

    def __exit__(self, *a):
        _random_mod.normalvariate = self._orig


class DoneTap:
    """Observes txaio.resolve / txaio.reject calls aimed at the future returned by start() (and at None):
    a second completion cannot be seen on the future itself (it raises inside the library)."""

    def __init__(self):
        self.target = None
        self.calls = []          # ('resolve'|'reject', 'start-future'|'None')
        self._orig = None

    def __enter__(self):
        self._orig = (txaio.resolve, txaio.reject)
        tap = self

        def resolve(f, *a, **kw):
            if f is None:
                tap.calls.append(("resolve", "None"))
            elif f is tap.target:
                tap.calls.append(("resolve", "start-future"))
            return tap._orig[0](f, *a, **kw)

        def reject(f, *a, **kw):
            if f is None:
                tap.calls.append(("reject", "None"))
            elif f is tap.target:
                tap.calls.append(("reject", "start-future"))
            return tap._orig[1](f, *a, **kw)

        txaio.resolve, txaio.reject = resolve, reject
        return self

    def __exit__(self, *a):
        txaio.resolve, txaio.reject = self._orig


def component_class():
    if txaio.using_twisted:
        from autobahn.twisted.component import Component
    else:
        from autobahn.asyncio.component import Component
    return Component


def session_class():
    if txaio.using_twisted:
        from autobahn.twisted.wamp import Session
    else:
        from autobahn.asyncio.wamp import Session
    return Session


__all__ = ["Net", "RouterConn", "Pending", "JitterTap", "DoneTap", "Outcome", "component_class", "session_class",
           "EVENTS"]
