"""C12, wire level: real handshakes between the library's client and server, a scripted RFC 7692 peer against one
real endpoint (hostile responses / offers, reference-codec data exchange) and the RSV1 rejection clauses.

Observation points only: Sec-WebSocket-Extensions headers and frames on the fake transports, application callbacks,
exceptions that reach the framework.  ``_perMessageCompress`` of the two protocols is read (never written) for the
compatibility invariant.
"""

from . import c12_common as CC
from . import c12_ref as R7
from . import rfc6455_ref as ref
from .c12_objects import SHORT, problem_class, report_negotiation
from .runner import h
from .world import segmentations
from .ws import WS, app_events, is_open

ALL_EXT = (CC.DEFLATE, CC.BZIP2, CC.BROTLI)
RSV_CLAUSES = ("rsv1-on-continuation", "control-rsv", "rsv2-3-set", "rsv1-without-extension")


def ext_header(head):
    vals = head[1].get("sec-websocket-extensions") if head else None
    return ", ".join(vals) if vals else None


def close_world(w):
    if w.world.fw == "aio":
        w.world.close()


def feed_cut(ep, data, rng, policy):
    for piece in segmentations(rng, data, policy):
        ep.feed(piece)


def messages_of(ep):
    return [(e[2], e[3]) for e in app_events(ep, ("onMessage",))]


def escaped_names(w):
    return sorted({type(e.exc).__name__ for _, e in w.world.escaped})


def pos_of(i):
    return "first-message" if i == 0 else "later-message"


# -------------------------------------------------------------------------------------------------
# sending through the public API in different ways
# -------------------------------------------------------------------------------------------------

def pick_recipe(rng, n, scale):
    if scale != "light" or n > 20000:
        return rng.choice(["whole", "whole", ("frag", 4096), ("frag", 65536), ("frames", 16384), "prepared"])
    r = rng.random()
    if r < 0.30:
        return "whole"
    if r < 0.40 and n <= 900:
        return ("frag", 1)
    if r < 0.55:
        return ("frag", 125)
    if r < 0.65:
        return ("frag", rng.randint(2, 3000))
    if r < 0.85:
        return ("frames", rng.choice([1, 10, 100, 1000]) if n <= 600 else rng.choice([100, 1000, 5000]))
    return "prepared"


def send_one(proto, payload, binary, recipe, dnc):
    if recipe == "whole":
        proto.sendMessage(payload, binary, doNotCompress=dnc)
    elif recipe == "prepared":
        proto.sendPreparedMessage(proto.factory.prepareMessage(payload, binary, doNotCompress=dnc))
    elif recipe[0] == "frag":
        proto.sendMessage(payload, binary, fragmentSize=recipe[1], doNotCompress=dnc)
    else:
        proto.beginMessage(binary, doNotCompress=dnc)
        for c in CC.chunks_of(payload, recipe[1]):
            proto.sendMessageFrame(c)
        proto.endMessage()


def sniff_messages(R, all_out, role, pmce_on):
    """Frames the endpoint wrote after its HTTP head -> (messages [(opcode, payload, rsv1, nframes)], rsv problems)."""
    head = ref.parse_http_head(bytes(all_out))
    if not head:
        return [], []
    frames, _rest = ref.parse_frames(head[2], allow_partial=True)
    R.count("wire_frames_parsed", len(frames))
    problems, messages, _controls, _open = ref.check_sender_stream(frames, role, pmce=pmce_on)
    return messages, [p for p in problems if p[0] in RSV_CLAUSES]


# -------------------------------------------------------------------------------------------------
# 1. library client <-> library server
# -------------------------------------------------------------------------------------------------

def drive_handshake(R, case):
    ext, cfg, scale, seed = case["ext"], CC.cfg_tuple(case["cfg"]), case["scale"], case["seed"]
    o_args, a_args, r_args = cfg
    sh = SHORT[ext]
    K = CC.classes(ext)
    R.count("evaluations")
    rng = CC.shard_rng(seed, "handshake", ext, cfg, scale)
    declined = {"server": None, "client": None}

    def s_accept(offers):
        for o in offers:
            if isinstance(o, K["Offer"]):
                try:
                    return K["OfferAccept"](o, *a_args)
                except Exception as e:      # noqa: BLE001 - an application declining = returning None
                    declined["server"] = str(e)
                    return None
        return None

    def c_accept(resp):
        if isinstance(resp, K["Response"]):
            try:
                return K["ResponseAccept"](resp, *r_args)
            except Exception as e:      # noqa: BLE001
                declined["client"] = str(e)
                return None
        return None

    so = {"perMessageCompressionAccept": s_accept, "autoFragmentSize": rng.choice([0, 0, 0, 64, 1000])}
    co = {"perMessageCompressionOffers": [K["Offer"](*o_args)], "perMessageCompressionAccept": c_accept,
          "autoFragmentSize": rng.choice([0, 0, 0, 64, 1000])}
    hs_seg = rng.choice([None, None, lambda _r, n: 1, lambda _r, n: rng.choice([1, 5, 40, n])])
    w = WS()
    try:
        link = w.open_pair(w.server_factory(options=so), w.client_factory(options=co), seg=hs_seg, max_rounds=400)
        cl, sv = link.a, link.b
        req, resp = ref.parse_http_head(bytes(cl.all_out)), ref.parse_http_head(bytes(sv.all_out))
        ostr, rstr = ext_header(req), ext_header(resp)
        detail = {"offer": ostr, "response": rstr, "declined": declined}
        if ostr is None:
            raise RuntimeError("harness: client sent no Sec-WebSocket-Extensions header")
        R.count("handshake_outcome[%s server-policy=%s client-policy=%s]" % (
            sh, "declines" if declined["server"] else "accepts", "declines" if declined["client"] else "accepts"))
        # --- the accept policy of the client declined: the handshake must fail
        if declined["client"] is not None:
            R.count("policy_declines_checked")
            R.seen("nontrivial", "handshake-declined/" + h([ext, cfg]))
            if is_open(cl) or app_events(cl, ("onOpen",)):
                R.violation("C12/handshake/%s/client/declined-by-accept-policy-but-open" % sh,
                            "perMessageCompressionAccept returned None for the server's response, the client opened anyway",
                            detail, case)
            return
        S, C = sv.proto._perMessageCompress, cl.proto._perMessageCompress
        if not (is_open(cl) and is_open(sv)):
            R.violation("C12/handshake/%s/library-peers-fail-to-open" % sh,
                        "client and server of the library do not complete a handshake both accept policies agreed to",
                        dict(detail, client_close=app_events(cl, ("onClose",)), server_close=app_events(sv, ("onClose",))), case)
            return
        wire = None
        if declined["server"] is not None:
            R.count("server_declines_checked")
            if rstr is not None or S is not None or C is not None:
                R.violation("C12/handshake/%s/server/declined-offer-but-extension-in-use" % sh,
                            "server accept policy returned None but an extension was answered / is in use", detail, case)
                return
        else:
            if rstr is None or S is None or C is None:
                R.violation("C12/handshake/%s/extension-not-in-use-after-accept" % sh,
                            "both accept policies accepted, but no extension is answered / in use", detail, case)
                return
            R.count("handshakes_opened_with_pmce")
            wire = report_negotiation(R, "handshake", ext, ostr, rstr, S, C, case, "handshake")
            if wire is None:
                return
        exchange_pair(R, case, w, link, ext, wire, S, C, rng, scale)
    finally:
        close_world(w)


def refusal_plans(rng, limit):
    """Per direction: ordinary messages, an incompressible message about twice the sender's limit (must be refused),
    then messages that SHARE CONTENT with the refused one (a compressor that kept the refused octets in its context
    refers to data the peer never got), a second refusal, ordinary ones.  Every accepted message stays well below the
    limit, compressed or not."""
    plans = {}
    text = (CC.SENT * 3).encode("utf-8")
    for d in ("c2s", "s2c"):
        n = [0]

        def t(body):
            n[0] += 1
            return ("<%s#%d>" % (d, n[0])).encode() + body

        big = rng.randbytes(2 * limit + rng.randrange(200))
        big2 = rng.randbytes(limit + limit // 2)
        q = limit // 2
        plan = [("text-first", t(text), False, False),
                ("random-small", t(rng.randbytes(300)), True, False)]
        if rng.random() < 0.5:
            plan.append(("text-repeat", t(text), False, False))
        plan += [("oversize-random", big, True, True),
                 ("prefix-of-refused", big[:q], True, False),
                 ("middle-of-refused", t(big[q:2 * q - 100]), True, False),
                 ("text-after-refusal", t(text), False, False),
                 ("empty", b"", False, False),
                 ("oversize-text+random", t(text) + big2, True, True),
                 ("part-of-second-refused", t(big2[100:100 + q]), True, False),
                 ("tail-of-first-refused", big[-q:], True, False),
                 ("text-last", t(text[:200]), False, False)]
        plans[d] = plan
    return plans


def drive_refusal(R, case):
    """case = {fam: refusal, ext, cfg, limit, seed}: library client <-> library server, both with maxMessagePayloadSize."""
    ext, cfg, limit, seed = case["ext"], CC.cfg_tuple(case["cfg"]), case["limit"], case["seed"]
    o_args, a_args, r_args = cfg
    K = CC.classes(ext)
    R.count("evaluations")
    rng = CC.shard_rng(seed, "refusal", ext, cfg, limit)
    so = {"perMessageCompressionAccept": lambda offers: K["OfferAccept"](offers[0], *a_args), "maxMessagePayloadSize": limit}
    co = {"perMessageCompressionOffers": [K["Offer"](*o_args)], "maxMessagePayloadSize": limit,
          "perMessageCompressionAccept": lambda resp: K["ResponseAccept"](resp, *r_args)}
    w = WS()
    try:
        link = w.open_pair(w.server_factory(options=so), w.client_factory(options=co))
        cl, sv = link.a, link.b
        S, C = sv.proto._perMessageCompress, cl.proto._perMessageCompress
        if not (is_open(cl) and is_open(sv)) or S is None or C is None:
            R.count("refusal_cases_not_negotiated")
            return
        ostr = ext_header(ref.parse_http_head(bytes(cl.all_out)))
        rstr = ext_header(ref.parse_http_head(bytes(sv.all_out)))
        wire = report_negotiation(R, "refusal", ext, ostr, rstr, S, C, case, "refusal")
        if wire is None:
            return
        R.count("refusal_ctx[%s s2c:%s c2s:%s]" % (SHORT[ext], CC.ctxmode(ext, S, C, "s2c"), CC.ctxmode(ext, S, C, "c2s")))
        exchange_pair(R, case, w, link, ext, wire, S, C, rng, "light", plans=refusal_plans(rng, limit), fam="refusal")
    finally:
        close_world(w)


def exchange_pair(R, case, w, link, ext, wire, S, C, rng, scale, plans=None, fam="handshake"):
    """``plans`` (refusal family): {direction: [(class, payload, binary, must_be_refused)]} sent with sendMessage only."""
    from autobahn.exception import PayloadExceededError

    sh = SHORT[ext]
    cl, sv = link.a, link.b
    ends = {"c2s": (cl, sv, "client"), "s2c": (sv, cl, "server")}
    refusal_mode = plans is not None
    if plans is None:
        plans = {d: [m + (False,) for m in CC.message_plan(rng, d, scale)] for d in ends}
    refused_before = {d: 0 for d in ends}
    sent = {d: [] for d in ends}
    dead = {d: False for d in ends}
    order = [d for d in ends for _ in plans[d]]
    rng.shuffle(order)
    idx = {d: 0 for d in ends}
    seg = rng.choice([None, lambda r, n: r.choice([1, 2, 7, 100, 1460, n]), lambda r, n: r.choice([1460, 65536, n])])
    burst = 0
    pmce_on = wire is not None

    def ctx(d):
        return CC.ctxmode(ext, S, C, d) if pmce_on else "no-extension"

    def lab(rec, i):
        return "after-refusal" if rec.get("after_refusal") else pos_of(i)

    for d in order:
        cls, msg, binary, must_refuse = plans[d][idx[d]]
        idx[d] += 1
        if dead[d]:
            continue
        tx = ends[d][0]
        if not is_open(tx):
            dead[d] = True
            continue
        dnc = (not must_refuse) and rng.random() < (0.15 if refusal_mode else 0.25)
        if refusal_mode:
            recipe = rng.choice(["whole", "whole", ("frag", 125), ("frag", rng.randint(1, 900))])
        else:
            recipe = pick_recipe(rng, len(msg), scale)
        i = len(sent[d])
        rec = {"payload": msg, "binary": binary, "dnc": dnc, "recipe": recipe, "cls": cls, "ok": True,
               "after_refusal": refused_before[d] > 0}
        if must_refuse:
            # a message whose compressed size exceeds the sender's maxMessagePayloadSize: sendMessage() refuses it
            # (PayloadExceededError), nothing may reach the wire, and the connection stays usable
            w.world.settle()
            mark = len(tx.all_out)
            try:
                send_one(tx.proto, msg, binary, recipe, dnc)
            except PayloadExceededError:
                w.world.settle()
                rec["ok"] = False
                refused_before[d] += 1
                R.count("refusals_in_sequences")
                if pmce_on:
                    R.count("refusals_in_compressed_sequences")
                if len(tx.all_out) != mark:
                    dead[d] = True
                    R.violation("C12/%s/%s/%s/%s/refused-message-left-octets-on-the-wire" % (fam, sh, d, ctx(d)),
                                "sendMessage() raised PayloadExceededError but wrote %d octets" % (len(tx.all_out) - mark),
                                {"server": repr(S), "client": repr(C), "message_index": i}, case)
            except Exception as e:      # noqa: BLE001
                rec["ok"] = False
                dead[d] = True
                R.violation("C12/%s/%s/%s/%s/send-raises-%s/%s" % (fam, sh, d, ctx(d), CC.excname(e), pos_of(i)),
                            "sending the oversize message #%d raised %r instead of PayloadExceededError" % (i, e),
                            {"server": repr(S), "client": repr(C), "message_index": i}, case)
            else:
                # not refused (the limit is property C16's subject): the peer, running the same limit, will fail the
                # connection - nothing more can be concluded from this direction
                R.count("refusal_expected_but_message_sent")
                return
            sent[d].append(rec)
            continue
        try:
            send_one(tx.proto, msg, binary, recipe, dnc)
        except Exception as e:      # noqa: BLE001
            rec["ok"] = False
            dead[d] = True
            R.violation("C12/%s/%s/%s/%s/send-raises-%s/%s" % (fam, sh, d, ctx(d), CC.excname(e), lab(rec, i)),
                        "sending message #%d of the direction (%s, %d octets, %r) raised %r" % (i, cls, len(msg), recipe, e),
                        {"server": repr(S), "client": repr(C), "message_index": i}, case)
        sent[d].append(rec)
        R.seen("send_recipes", "%s%s" % (recipe if isinstance(recipe, str) else recipe[0], "+dnc" if dnc else ""))
        burst += 1
        if burst >= rng.choice([1, 1, 2, 4]):
            burst = 0
            w.world.settle()
            link.pump_all(seg, rng)
    w.world.settle()
    link.pump_all(seg, rng)
    w.world.settle()
    esc = escaped_names(w)
    esc_reported = False
    compared = 0
    for d, (tx, rx, role) in ends.items():
        expected = [s for s in sent[d] if s["ok"]]
        got = messages_of(rx)
        base = "C12/%s/%s/%s/%s" % (fam, sh, d, ctx(d))
        det = {"server": repr(S), "client": repr(C), "escaped": [repr(e) for _, e in w.world.escaped],
               "rx_close": app_events(rx, ("onClose",)), "tx_close": app_events(tx, ("onClose",)),
               "wasNotCleanReason": getattr(rx.proto, "wasNotCleanReason", None)}
        for i, s in enumerate(expected):
            if i >= len(got):
                clause = ("receiver-raises-" + esc[0]) if esc else "message-lost"
                esc_reported = esc_reported or bool(esc)
                R.violation("%s/%s/%s" % (base, clause, lab(s, i)),
                            "message #%d of the direction (%s, %d octets, sent by %r%s) never reached onMessage" % (
                                i, s["cls"], len(s["payload"]), s["recipe"], ", doNotCompress" if s["dnc"] else ""),
                            dict(det, message_index=i), case)
                break
            R.count("handshake_messages_compared")
            compared += 1
            if i > 0:
                R.count("handshake_later_messages_compared")
            if s["after_refusal"]:
                R.count("messages_compared_after_refusal")
                if pmce_on and not s["dnc"]:
                    R.count("compressed_messages_compared_after_refusal")
            if got[i] != (s["payload"], s["binary"]):
                R.violation("%s/received-differs/%s" % (base, lab(s, i)),
                            "message #%d (%s, %d octets, %r) arrived as %d octets / binary=%r" % (
                                i, s["cls"], len(s["payload"]), s["recipe"], len(got[i][0]), got[i][1]),
                            dict(det, message_index=i, sent=s["payload"][:48].hex(), got=got[i][0][:48].hex()), case)
                break
        else:
            if len(got) > len(expected) and all(s["ok"] for s in sent[d]):
                R.violation("%s/unexpected-extra-message" % base, "receiver got %d messages, %d were sent" % (len(got), len(expected)),
                            det, case)
        # --- what travelled
        messages, rsv_problems = sniff_messages(R, tx.all_out, role, pmce_on)
        for clause, k, text in rsv_problems:
            R.violation("C12/wire/%s/%s" % (role, clause), "frame #%d written by the library's %s: %s" % (k, role, text), det, case)
        _, refI = CC.ref_codecs(ext, wire, d) if pmce_on else (None, None)
        ref_dead = False
        if all(s["ok"] for s in sent[d]) or len(messages) <= len(expected):
            for i, (op, pl, rsv1, _nfr) in enumerate(messages[:len(expected)]):
                s = expected[i]
                R.count("wire_messages_sniffed")
                if (op == ref.OP_BIN) != s["binary"]:
                    R.violation("C12/wire/%s/opcode-differs" % role, "message #%d travels with opcode %d" % (i, op), det, case)
                if s["dnc"]:
                    R.count("donotcompress_checked")
                    if rsv1:
                        R.violation("C12/wire/%s/doNotCompress-sent-with-rsv1" % role,
                                    "message #%d was sent with doNotCompress=True by %r and travels with RSV1 set" % (i, s["recipe"]),
                                    dict(det, recipe=repr(s["recipe"])), case)
                    elif pl != s["payload"]:
                        R.violation("C12/wire/%s/doNotCompress-payload-altered" % role,
                                    "doNotCompress message #%d travels with a payload different from what was sent" % i, det, case)
                    continue
                if not rsv1:
                    if pmce_on:
                        R.count("uncompressed_under_pmce")
                    if pl != s["payload"]:
                        R.violation("C12/wire/%s/uncompressed-payload-altered" % role,
                                    "message #%d travels without RSV1 but its payload is not what was sent" % i, det, case)
                    continue
                R.count("wire_rsv1_messages")
                if refI is None or ref_dead:
                    continue
                try:
                    out = refI.inflate(pl)
                except R7.RefInflateError as e:
                    ref_dead = True
                    R.violation("C12/%s/%s/%s/lib-to-ref/%s/%s" % (fam, sh, d, e.clause, lab(s, i)),
                                "an RFC 7692 peer knowing only the headers cannot inflate message #%d: %s" % (i, e),
                                dict(det, wire=wire), case)
                    continue
                R.count("wire_messages_inflated_by_reference")
                if out != s["payload"]:
                    ref_dead = True
                    R.violation("C12/%s/%s/%s/lib-to-ref/inflates-to-other-data/%s" % (fam, sh, d, lab(s, i)),
                                "an RFC 7692 peer inflates message #%d to other data" % i, dict(det, wire=wire), case)
        else:
            R.count("wire_unaligned_after_failed_send")
    if esc and not esc_reported:
        # an exception reached the framework although every message arrived
        R.violation("C12/%s/%s/exception-reaches-framework/%s" % (fam, sh, esc[0]),
                    "exception escaped to the framework during the exchange", {"escaped": [repr(e) for _, e in w.world.escaped]}, case)
    if compared >= 2:
        R.seen("nontrivial", fam + "/" + h([w.world.fw, ext, case["cfg"], scale]))
        R.count("handshake_ctx[%s s2c:%s c2s:%s]" % (sh, ctx("s2c"), ctx("c2s")))
    R.sample({"ext": ext, "cfg": case["cfg"], "scale": scale, "server": repr(S), "client": repr(C), "wire": wire,
              "sent": {d: [[s["cls"], len(s["payload"]), repr(s["recipe"]), s["dnc"]] for s in sent[d]][:6] for d in sent}},
             kind=fam + "-" + sh, every=97)


# -------------------------------------------------------------------------------------------------
# 2. one real endpoint against a scripted RFC 7692 peer
# -------------------------------------------------------------------------------------------------

def frame_message(rng, payload, opcode, rsv1, masked, with_ping=True, allow_empty=True):
    """Cut a (compressed) payload into frames the way any peer may: RSV1 on the first frame only, empty fragments,
    control frames in between (the library's own sendMessage() emits an empty final fragment whenever the payload
    length is a multiple of the fragment size, so empty fragments are ordinary input)."""
    n = len(payload)
    k = rng.choice([1, 1, 2, 3, 6])
    cuts = sorted(rng.randint(0, n) for _ in range(k - 1))
    parts = [payload[a:b] for a, b in zip([0] + cuts, cuts + [n])]
    if not allow_empty:
        parts = [p for p in parts if p] or [payload]
    out = []
    pings = []
    for j, p in enumerate(parts):
        mask = bytes(rng.getrandbits(8) for _ in range(4)) if masked else None
        out.append(ref.encode_frame(opcode if j == 0 else ref.OP_CONT, p, fin=(j == len(parts) - 1),
                                    rsv=4 if (rsv1 and j == 0) else 0, mask=mask))
        if with_ping and j < len(parts) - 1 and rng.random() < 0.3:
            tag = b"p%d" % rng.randrange(10 ** 6)
            pings.append(tag)
            out.append(ref.encode_frame(ref.OP_PING, tag, mask=bytes(rng.getrandbits(8) for _ in range(4)) if masked else None))
    return b"".join(out), pings


def peer_exchange(R, case, w, ep, role, ext, wire, rng, fam, plans=None):
    """``ep`` is the real endpoint of ``role``; the harness is an independent peer that derives everything from the
    headers (``wire``)."""
    sh = SHORT[ext]
    d_in, d_out = ("c2s", "s2c") if role == "server" else ("s2c", "c2s")
    refD, _ = CC.ref_codecs(ext, wire, d_in, "sync", rng)
    _, refI = CC.ref_codecs(ext, wire, d_out)
    mixed = CC.MixedRefDeflater(refD) if isinstance(refD, R7.RefDeflater) else None
    modes = rng.choice([("sync",), ("sync", "split"), ("stored", "sync", "fullflush"), ("sync", "bfinal"),
                        CC.MixedRefDeflater.MODES])
    plan_in, plan_out = plans or (CC.message_plan(rng, "in", "light"), CC.message_plan(rng, "out", "light"))
    masked = role == "server"
    n_in = n_out = 0
    compared = 0
    in_dead = refD is None
    out_dead = False
    ref_dead = refI is None
    ep.take_output()
    for step in range(max(len(plan_in), len(plan_out))):
        # ---- peer -> library
        if step < len(plan_in) and not in_dead and is_open(ep):
            cls, msg, binary = plan_in[step]
            compress = rng.random() < 0.85
            if compress:
                if mixed is not None:
                    payload = mixed.deflate(msg, modes[n_in % len(modes)])
                    style = "after-bfinal-block" if mixed.bfinal_seen else "sync-flush"
                else:
                    payload = refD.deflate(msg)
                    style = "small-window" if ext == CC.DEFLATE else "whole-stream"
            else:
                payload, style = msg, "uncompressed"
            data, pings = frame_message(rng, payload, ref.OP_BIN if binary else ref.OP_TEXT, compress, masked)
            before = len(messages_of(ep))
            feed_cut(ep, data, rng, rng.choice(["whole", "random", "halves", "small" if len(data) < 3000 else "random"]))
            w.world.settle()
            got = messages_of(ep)[before:]
            key = "C12/%s/%s/%s/ref-to-lib/%s" % (fam, sh, d_in, style)
            det = {"message_index": n_in, "class": cls, "length": len(msg), "wire": wire, "pmce": repr(ep.proto._perMessageCompress),
                   "escaped": [repr(e) for _, e in w.world.escaped], "close": app_events(ep, ("onClose",)),
                   "wasNotCleanReason": getattr(ep.proto, "wasNotCleanReason", None)}
            if len(got) != 1:
                in_dead = True
                esc = escaped_names(w)
                clause = ("receiver-raises-" + esc[0]) if esc else ("not-delivered" if not got else "delivered-more-than-once")
                R.violation("%s/%s/%s" % (key, clause, pos_of(n_in)),
                            "message #%d (%s, %d octets) sent by an RFC 7692 peer with the negotiated parameters: %d onMessage calls" % (
                                n_in, cls, len(msg), len(got)), det, case)
            else:
                R.count("peer_ref_to_lib_compared")
                R.seen("peer_flush_styles", style)
                compared += 1
                if got[0] != (msg, binary):
                    in_dead = True
                    R.violation("%s/mismatch/%s" % (key, pos_of(n_in)),
                                "message #%d (%s, %d octets) sent by an RFC 7692 peer is delivered as %d other octets" % (
                                    n_in, cls, len(msg), len(got[0][0])), dict(det, got=got[0][0][:48].hex()), case)
            n_in += 1
        # ---- library -> peer
        if step < len(plan_out) and not out_dead and is_open(ep):
            cls, msg, binary = plan_out[step]
            dnc = rng.random() < 0.2
            recipe = pick_recipe(rng, len(msg), "light")
            ep.take_output()
            key = "C12/%s/%s/%s" % (fam, sh, d_out)
            try:
                send_one(ep.proto, msg, binary, recipe, dnc)
            except Exception as e:      # noqa: BLE001
                out_dead = True
                R.violation("%s/%s/send-raises-%s/%s" % (key, _ctx_of(ep, ext, role), CC.excname(e), pos_of(n_out)),
                            "sending message #%d (%s, %d octets, %r) raised %r" % (n_out, cls, len(msg), recipe, e),
                            {"pmce": repr(ep.proto._perMessageCompress)}, case)
                continue
            w.world.settle()
            frames, _rest = ref.parse_frames(ep.take_output(), allow_partial=True)
            problems, messages, _c, _o = ref.check_sender_stream(frames, role, pmce=True)
            for clause, k, text in problems:
                if clause in RSV_CLAUSES:
                    R.violation("C12/wire/%s/%s" % (role, clause), "frame #%d written by the library's %s: %s" % (k, role, text), {}, case)
            if len(messages) != 1:
                out_dead = True
                R.violation("%s/lib-to-ref/not-one-message-on-the-wire/%s" % (key, pos_of(n_out)),
                            "sendMessage wrote %d complete messages" % len(messages), {"recipe": repr(recipe)}, case)
                continue
            op, pl, rsv1, _nfr = messages[0]
            R.count("wire_messages_sniffed")
            if dnc:
                R.count("donotcompress_checked")
                if rsv1:
                    R.violation("C12/wire/%s/doNotCompress-sent-with-rsv1" % role,
                                "doNotCompress message sent by %r travels with RSV1" % (recipe,), {"recipe": repr(recipe)}, case)
                elif pl != msg:
                    R.violation("C12/wire/%s/doNotCompress-payload-altered" % role, "doNotCompress payload differs", {}, case)
            elif not rsv1:
                if pl != msg:
                    R.violation("C12/wire/%s/uncompressed-payload-altered" % role, "payload without RSV1 differs from what was sent", {}, case)
            elif not ref_dead:
                try:
                    out = refI.inflate(pl)
                except R7.RefInflateError as e:
                    ref_dead = True
                    R.violation("%s/lib-to-ref/%s/%s" % (key, e.clause, pos_of(n_out)),
                                "an RFC 7692 peer knowing only the headers cannot inflate message #%d: %s" % (n_out, e),
                                {"wire": wire, "pmce": repr(ep.proto._perMessageCompress)}, case)
                else:
                    R.count("peer_lib_to_ref_compared")
                    compared += 1
                    if out != msg:
                        ref_dead = True
                        R.violation("%s/lib-to-ref/inflates-to-other-data/%s" % (key, pos_of(n_out)),
                                    "an RFC 7692 peer inflates message #%d to other data" % n_out, {"wire": wire}, case)
            n_out += 1
    return compared


def _ctx_of(ep, ext, role):
    p = ep.proto._perMessageCompress
    if p is None or ext == CC.BZIP2:
        return "stateless"
    cn = p.server_no_context_takeover if role == "server" else p.client_no_context_takeover
    return "comp-%s" % ("reset" if cn else "keep")


def one_sided_problems(ext, wire, p, role):
    """The compatibility invariant for ONE real endpoint against an arbitrary RFC peer."""
    probs = []
    if ext == CC.BZIP2:
        lvl, neg = (p.server_max_compress_level, wire["s_lvl"]) if role == "server" else (p.client_max_compress_level, wire["c_lvl"])
        if lvl > neg:
            probs.append("compress-level-exceeds-negotiated")
        return probs
    out, inn = ("s", "c") if role == "server" else ("c", "s")
    names = {"s": "server", "c": "client"}
    cn = getattr(p, names[out] + "_no_context_takeover")
    dn = getattr(p, names[inn] + "_no_context_takeover")
    if wire[out + "_nct"] and not cn:
        probs.append("negotiated-no-context-takeover-not-honoured-by-compressor")
    if dn and not wire[inn + "_nct"]:
        probs.append("decompressor-drops-context-not-negotiated")
    if ext == CC.DEFLATE:
        if getattr(p, names[out] + "_max_window_bits") > wire[out + "_wb"]:
            probs.append("compressor-window-exceeds-negotiated")
        if getattr(p, names[inn] + "_max_window_bits") < wire[inn + "_wb"]:
            probs.append("decompressor-window-below-negotiated")
    return probs


def _norm_reason(r):
    import re

    r = re.sub(r"'[^']*'", "'..'", str(r))
    r = re.sub(r'"[^"]*"', '".."', r)
    return r[:90]


# ---- hostile / valid responses against the real client

def client_options(policy):
    """Client offering all installed extensions; ``policy``: accept-all | decline-all | decline-window-above-12"""
    offers, classes = [], {}
    for ext in ALL_EXT:
        K = CC.classes(ext)
        classes[ext] = K
        offers.append(K["Offer"](True, True, False, 0) if ext == CC.DEFLATE else K["Offer"]())
    called = []

    def accept(resp):
        called.append(type(resp).__name__)
        if policy == "decline-all":
            return None
        for ext, K in classes.items():
            if isinstance(resp, K["Response"]):
                if policy == "decline-window-above-12" and ext == CC.DEFLATE and (resp.server_max_window_bits or 15) > 12:
                    return None
                return K["ResponseAccept"](resp)
        return None
    return {"perMessageCompressionOffers": offers, "perMessageCompressionAccept": accept}, called


def drive_response(R, case):
    """case = {fam: response, cls, headers: [str] | [str, str], expect: fail|open|grey, policy, seed}"""
    R.count("evaluations")
    rng = CC.shard_rng(case["seed"], "response", case["cls"], case["headers"], case["policy"])
    opts, called = client_options(case["policy"])
    w = WS()
    try:
        kw = {"extensions": case["headers"][0]}
        if len(case["headers"]) > 1:
            kw["extra"] = [("Sec-WebSocket-Extensions", x) for x in case["headers"][1:]]
        cl, req, key = w.open_client(w.client_factory(options=opts), **kw)
        if not key:
            raise RuntimeError("harness: no client request")
        opened = is_open(cl) or bool(app_events(cl, ("onOpen",)))
        cls = case["cls"]
        R.seen("response_classes", cls)
        det = {"response_headers": case["headers"], "policy": case["policy"], "accept_called_with": called,
               "client_pmce": repr(cl.proto._perMessageCompress), "close": app_events(cl, ("onClose",)),
               "wasNotCleanReason": getattr(cl.proto, "wasNotCleanReason", None), "escaped": [repr(e) for _, e in w.world.escaped]}
        if w.world.escaped:
            R.violation("C12/response/%s/exception-reaches-framework/%s" % (cls, escaped_names(w)[0]),
                        "processing the server's response raised into the framework", det, case)
        if case["expect"] == "fail":
            R.count("hostile_must_fail_checked")
            R.count("hostile_must_fail[%s]" % cls)
            if cls.startswith("declined"):
                R.count("policy_declines_checked")
            R.seen("nontrivial", "response/" + h([w.world.fw, cls, case["headers"], case["policy"]]))
            if opened:
                R.violation("C12/response/%s/client-opens" % cls,
                            "the client completed the handshake although the response %r must make it fail (%s)" % (case["headers"], cls),
                            det, case)
            else:
                R.count("fail_reason[%s]" % _norm_reason(getattr(cl.proto, "wasNotCleanReason", None)))
                # nothing may be delivered afterwards either
                cl.feed(ref.encode_frame(ref.OP_TEXT, b"after"))
                w.world.settle()
                if messages_of(cl):
                    R.violation("C12/response/%s/message-delivered-after-failed-handshake" % cls, "onMessage after a failed handshake", det, case)
            return
        if case["expect"] == "grey":
            R.count("grey_responses_opened" if opened else "grey_responses_failed")
            return
        if case["expect"] == "fail-or-lossless":
            # window size 8: valid in RFC 7692, outside the library's documented 9..15.  Sound under both readings:
            # EITHER the client fails the handshake OR what it opened works - compressed messages in both directions
            # against a peer that honours exactly the negotiated parameters, and sendMessage() does not raise
            R.count("window8_cases_evaluated")
            R.seen("nontrivial", "window-8/" + h([w.world.fw, case["headers"], case["seed"]]))
            if not opened:
                R.count("window8_handshake_failed")
                return
            R.count("window8_handshake_opened")
            j = R7.judge_negotiation(ext_header(ref.parse_http_head(req)), case["headers"][0])
            p = cl.proto._perMessageCompress
            if not j["ok"] or j["ext"] != CC.DEFLATE or p is None:
                R.violation("C12/window-8/deflate/opened-without-usable-extension",
                            "client opened on a window-8 response but no permessage-deflate object is in use", det, case)
                return
            wire = R7.wire_params(CC.DEFLATE, j["resp"])
            for clause in one_sided_problems(CC.DEFLATE, wire, p, "client"):
                R.violation("C12/window-8/deflate/client/%s" % clause,
                            "client runs with parameters incompatible with the response it accepted", dict(det, wire=wire), case)
            plans = (CC.small_window_plan(rng, "in"), CC.small_window_plan(rng, "out"))
            peer_exchange(R, case, w, cl, "client", CC.DEFLATE, wire, rng, "window-8", plans)
            return
        # valid control: monitors are not vacuous + data exchange with the reference codecs
        if not opened:
            R.count("valid_responses_rejected")
            R.count("valid_rejected[%s]" % _norm_reason(getattr(cl.proto, "wasNotCleanReason", None)))
            return
        R.count("hostile_controls_opened")
        ostr = ext_header(ref.parse_http_head(req))
        j = R7.judge_negotiation(ostr, case["headers"][0])
        p = cl.proto._perMessageCompress
        if not j["ok"] or j["ext"] is None or p is None:
            R.count("valid_control_not_judged")
            return
        ext = j["ext"]
        wire = R7.wire_params(ext, j["resp"])
        for clause in one_sided_problems(ext, wire, p, "client"):
            R.violation("C12/response/%s/client/%s" % (SHORT[ext], clause),
                        "client runs with parameters incompatible with the response it accepted", dict(det, wire=wire), case)
        R.count("client_effective_checked")
        if peer_exchange(R, case, w, cl, "client", ext, wire, rng, "peer") >= 2:
            R.seen("nontrivial", "response-valid/" + h([w.world.fw, case["headers"], case["seed"]]))
    finally:
        close_world(w)


# ---- offers against the real server

def server_options(policy, a_args):
    order = policy

    def accept(offers):
        seq = list(offers)
        if order == "last":
            seq.reverse()
        for o in seq:
            for ext in ALL_EXT:
                K = CC.classes(ext)
                if isinstance(o, K["Offer"]):
                    try:
                        return K["OfferAccept"](o, *a_args[ext])
                    except Exception:      # noqa: BLE001 - incompatible choice for this offer: try the next one
                        break
        return None
    return {"perMessageCompressionAccept": accept}


def drive_offer(R, case):
    """case = {fam: offer, cls, header, policy: first|last, a_args: {ext: [...]}, seed}"""
    R.count("evaluations")
    rng = CC.shard_rng(case["seed"], "offer", case["header"], case["policy"], case["a_args"])
    a_args = {k: tuple(v) for k, v in case["a_args"].items()}
    w = WS()
    try:
        sv, out, _key = w.open_server(w.server_factory(options=server_options(case["policy"], a_args)), extensions=case["header"])
        head = ref.parse_http_head(out)
        R.seen("offer_classes", case["cls"])
        det = {"offer_header": case["header"], "policy": case["policy"], "a_args": case["a_args"],
               "status": head[0] if head else None, "escaped": [repr(e) for _, e in w.world.escaped]}
        if w.world.escaped:
            R.violation("C12/offer/exception-reaches-framework/%s" % escaped_names(w)[0],
                        "processing the client's offer raised into the framework", det, case)
        if not head or " 101 " not in head[0] + " ":
            R.count("offers_refused_by_server")
            return
        rstr = ext_header(head)
        det["response_header"] = rstr
        if rstr is None:
            R.count("offers_answered_without_extension")
            if sv.proto._perMessageCompress is not None:
                R.violation("C12/offer/server/extension-in-use-but-not-answered", "server uses a PMCE it did not answer", det, case)
            return
        R.count("offers_judged")
        j = R7.judge_negotiation(case["header"], rstr)
        if not j["ok"]:
            for p in j["problems"]:
                R.violation("C12/offer/%s/server-response/%s" % (SHORT.get(j["ext"], "other"), problem_class(p)),
                            "the server's answer %r is not compatible with the offer %r: %s" % (rstr, case["header"], p), det, case)
            return
        ext, p = j["ext"], sv.proto._perMessageCompress
        if ext is None or p is None:
            return
        wire = R7.wire_params(ext, j["resp"])
        R.seen("nontrivial", "offer/" + h([w.world.fw, case["header"], case["policy"], case["a_args"]]))
        for clause in one_sided_problems(ext, wire, p, "server"):
            R.violation("C12/offer/%s/server/%s" % (SHORT[ext], clause),
                        "server runs with parameters incompatible with what it answered", dict(det, wire=wire, pmce=repr(p)), case)
        R.count("server_effective_checked")
        peer_exchange(R, case, w, sv, "server", ext, wire, rng, "peer")
    finally:
        close_world(w)


# -------------------------------------------------------------------------------------------------
# 3. RSV1 where it must not be
# -------------------------------------------------------------------------------------------------

RSV_VARIANTS = {
    # name: (class, must_reject)
    "ping-rsv1": ("compressed-control-frame", True),
    "pong-rsv1": ("compressed-control-frame", True),
    "close-rsv1": ("compressed-control-frame", True),
    "ping-rsv1-deflated-payload": ("compressed-control-frame", True),
    "ping-rsv1-inside-fragmented": ("compressed-control-frame", True),
    "cont-rsv1-after-compressed-first": ("rsv1-continuation", True),
    "cont-rsv1-after-plain-first": ("rsv1-continuation", True),
    "cont-rsv1-middle-of-three": ("rsv1-continuation", True),
    "cont-rsv1-empty-final": ("rsv1-continuation", True),
    "ok-compressed-fragmented": ("valid", False),
    "ok-plain-ping-inside-compressed": ("valid", False),
}

RSV_HEADERS = {
    CC.DEFLATE: "permessage-deflate",
    CC.BZIP2: "permessage-bzip2",
    CC.BROTLI: "permessage-brotli; server_no_context_takeover; client_no_context_takeover",
}


def open_negotiated(w, role, ext, fail_by_drop):
    K = CC.classes(ext)
    if role == "server":
        def accept(offers):
            for o in offers:
                if isinstance(o, K["Offer"]):
                    if ext == CC.BROTLI:
                        return K["OfferAccept"](o, True, True)
                    return K["OfferAccept"](o)
        f = w.server_factory(options={"perMessageCompressionAccept": accept, "failByDrop": fail_by_drop})
        ep, out, _ = w.open_server(f, extensions=RSV_HEADERS[ext])
        rstr = ext_header(ref.parse_http_head(out))
        ostr = RSV_HEADERS[ext]
    else:
        offer = K["Offer"](True, True) if ext == CC.BROTLI else K["Offer"]()
        f = w.client_factory(options={"perMessageCompressionOffers": [offer], "failByDrop": fail_by_drop,
                                      "perMessageCompressionAccept": lambda resp: K["ResponseAccept"](resp)})
        ep, req, _ = w.open_client(f, extensions=RSV_HEADERS[ext])
        ostr = ext_header(ref.parse_http_head(req))
        rstr = RSV_HEADERS[ext]
    if not is_open(ep) or ep.proto._perMessageCompress is None:
        raise RuntimeError("harness: could not negotiate %s with the %s" % (ext, role))
    j = R7.judge_negotiation(ostr, rstr)
    if not j["ok"] or j["ext"] != ext:
        raise RuntimeError("harness: negotiation for the RSV cases judged unsound: %r" % (j["problems"],))
    return ep, R7.wire_params(ext, j["resp"])


def drive_rsv(R, case):
    """case = {fam: rsv, ext, role, variant, seg, fbd, prefix, seed}"""
    R.count("evaluations")
    ext, role, variant = case["ext"], case["role"], case["variant"]
    vclass, must_reject = RSV_VARIANTS[variant]
    rng = CC.shard_rng(case["seed"], "rsv", ext, role, variant, case["seg"], case["fbd"], case["prefix"])
    w = WS()
    try:
        ep, wire = open_negotiated(w, role, ext, case["fbd"])
        d_in = "c2s" if role == "server" else "s2c"
        refD, _ = CC.ref_codecs(ext, wire, d_in, "sync", rng)
        masked = role == "server"

        def mk():
            return bytes(rng.getrandbits(8) for _ in range(4)) if masked else None

        def fr(op, payload, fin=True, rsv=0):
            return ref.encode_frame(op, payload, fin=fin, rsv=rsv, mask=mk())

        pre = []
        for k in range(case["prefix"]):
            m = ("prefix-%d " % k).encode() * 20
            pre.append((m, False))
            feed_cut(ep, fr(ref.OP_TEXT, refD.deflate(m), rsv=4), rng, case["seg"])
        w.world.settle()
        if messages_of(ep) != pre:
            R.violation("C12/rsv/%s/%s/valid-compressed-message/not-delivered" % (role, SHORT[ext]),
                        "valid compressed prefix messages were not delivered unchanged", {"got": len(messages_of(ep))}, case)
            return
        msg = ("<%s> " % variant).encode() + (CC.SENT * 3).encode("utf-8")
        P = refD.deflate(msg)
        a = max(1, len(P) // 3)
        b = max(a, 2 * len(P) // 3)
        tag = b"tag-%d" % rng.randrange(10 ** 6)
        if variant == "ping-rsv1":
            data = fr(ref.OP_PING, tag, rsv=4)
        elif variant == "pong-rsv1":
            data = fr(ref.OP_PONG, tag, rsv=4)
        elif variant == "close-rsv1":
            data = fr(ref.OP_CLOSE, ref.close_payload(1000, "bye"), rsv=4)
        elif variant == "ping-rsv1-deflated-payload":
            tag = b"tagtagtagtag-%d" % rng.randrange(10 ** 6)
            data = fr(ref.OP_PING, CC.ref_codecs(ext, wire, d_in)[0].deflate(tag), rsv=4)
        elif variant == "ping-rsv1-inside-fragmented":
            data = fr(ref.OP_TEXT, P[:a], fin=False, rsv=4) + fr(ref.OP_PING, tag, rsv=4) + fr(ref.OP_CONT, P[a:])
        elif variant == "cont-rsv1-after-compressed-first":
            data = fr(ref.OP_TEXT, P[:a], fin=False, rsv=4) + fr(ref.OP_CONT, P[a:], rsv=4)
        elif variant == "cont-rsv1-after-plain-first":
            data = fr(ref.OP_TEXT, msg[:10], fin=False) + fr(ref.OP_CONT, msg[10:], rsv=4)
        elif variant == "cont-rsv1-middle-of-three":
            data = fr(ref.OP_TEXT, P[:a], fin=False, rsv=4) + fr(ref.OP_CONT, P[a:b], fin=False, rsv=4) + fr(ref.OP_CONT, P[b:])
        elif variant == "cont-rsv1-empty-final":
            data = fr(ref.OP_TEXT, P, fin=False, rsv=4) + fr(ref.OP_CONT, b"", rsv=4)
        elif variant == "ok-compressed-fragmented":
            data = fr(ref.OP_TEXT, P[:a], fin=False, rsv=4) + fr(ref.OP_CONT, P[a:b], fin=False) + fr(ref.OP_CONT, P[b:])
        elif variant == "ok-plain-ping-inside-compressed":
            data = fr(ref.OP_TEXT, P[:a], fin=False, rsv=4) + fr(ref.OP_PING, tag) + fr(ref.OP_CONT, P[a:])
        else:
            raise ValueError(variant)
        after = b"after-the-offending-frame"
        data += fr(ref.OP_TEXT, after)
        mark = len(ep.all_out)
        feed_cut(ep, data, rng, case["seg"])
        w.world.settle()
        if ep.close_requested and not ep.lost:
            ep.finish_close()
            w.world.settle()
        got = messages_of(ep)[len(pre):]
        pings = [e[2] for e in app_events(ep, ("onPing",))]
        pongs = [e[2] for e in app_events(ep, ("onPong",))]
        closes = [e[2:] for e in app_events(ep, ("onClose",))]
        frames, _ = ref.parse_frames(bytes(ep.all_out[mark:]), allow_partial=True)
        sent_close = [f.payload[:2].hex() for f in frames if f.opcode == ref.OP_CLOSE]
        det = {"variant": variant, "messages_after": [m[0][:40].hex() for m in got], "pings": [p.hex() for p in pings],
               "closes": closes, "close_frames_sent": sent_close, "still_open": is_open(ep), "close_requested": ep.close_requested,
               "escaped": [repr(e) for _, e in w.world.escaped], "pmce": repr(ep.proto._perMessageCompress)}
        R.seen("rsv_variants", h([role, SHORT[ext], variant]))
        if w.world.escaped:
            R.violation("C12/rsv/%s/exception-reaches-framework/%s" % (role, escaped_names(w)[0]),
                        "exception escaped to the framework", det, case)
        if must_reject:
            R.count("rsv_reject_checked")
            R.count("rsv_reject_checked[%s]" % vclass)
            R.seen("nontrivial", "rsv/" + h([w.world.fw, ext, role, variant, case["seg"], case["fbd"], case["prefix"]]))
            accepted = []
            if (after, False) in got:
                accepted.append("message after the offending frame delivered")
            if (msg, False) in got:
                accepted.append("message containing the RSV1 continuation delivered")
            failed = (not is_open(ep)) and ("03ea" in sent_close or ep.close_requested == "abort" or
                                            any(c[0] is False for c in closes))
            if not failed:
                accepted.append("connection not failed (no 1002 close frame, no drop)")
            app_saw = (tag in pings or tag in pongs or (variant == "close-rsv1" and any(c[0] is True for c in closes)))
            if app_saw:
                if case["fbd"]:
                    accepted.append("compressed control frame handed to the application although the connection is failed by drop")
                else:
                    # closing-handshake failure mode keeps parsing to find the peer's close reply; whether control
                    # frames seen meanwhile reach the application is a grey zone (DESIGN section 4) - counted only
                    R.count("rsv_grey_control_callback_while_closing")
            if accepted:
                R.violation("C12/rsv/%s/%s/accepted" % (role, vclass),
                            "%s (%s) was not rejected: %s" % (variant, SHORT[ext], "; ".join(accepted)), det, case)
            else:
                R.seen("rsv_reject_outcomes", ",".join(sent_close) or "drop")
        else:
            ok = got == [(msg, False), (after, False)] and (variant != "ok-plain-ping-inside-compressed" or tag in pings)
            if ok:
                R.count("rsv_controls_delivered")
            else:
                R.violation("C12/rsv/%s/%s/valid-compressed-fragmented/not-delivered" % (role, SHORT[ext]),
                            "a compressed message with RSV1 on the first frame only (%s) was not delivered unchanged" % variant, det, case)
    finally:
        close_world(w)
