"""C17 - one timer time line: a real endpoint, a scripted peer, a deadline book.

A *case* (JSON-able dict) describes one connection:

    role      'server' | 'client'          the real autobahn endpoint; the harness plays the peer
    opts      protocol options (timeouts, auto-ping settings, failByDrop ...)
    t0        virtual seconds to let pass before the connection is made (non-integer on purpose:
              the batched timer floors deadlines to whole seconds)
    acts      [[t_rel, kind, before], ...]  peer / application actions at t_c + t_rel (t_c = instant
              of connection-made).  ``before`` = True: the action is performed (and everything it
              triggers has run) before timers that are due in the same instant, False: after them,
              "iter": the octets arrive in the very event-loop iteration in which the timers are due
              (asyncio: the read callback runs first, the due timers next, callbacks scheduled by the
              read callback - e.g. the continuation of an ``onConnect`` future - after the timers;
              Twisted runs the whole reaction synchronously, there "iter" is the same as True).
    rules     [{'on': 'ping', 'delay': d, 'do': kind, 'first': i, 'count': n, 'before': b}, ...]
              reactive peer behaviour: for auto-pings number first .. first+count-1 seen on the wire,
              perform ``kind`` ``d`` seconds after the ping was written.
    proxy     None | True                  client only: the factory is configured with an explicit HTTP proxy; the
              harness plays the proxy first (actions px / px_a / px_b / px_deny answer the CONNECT), then the server
    onopen    None | 'close'               the application calls sendClose() from inside onOpen
    lost_delay  None | seconds | "never"   how long a loseConnection()/close()-style close request stays
              undelivered because the write buffer cannot be flushed ("never": the peer has stopped reading,
              the transport only goes away when the harness tears it down at the horizon);
              abortConnection()/abort() is always delivered at once
    horizon   t_rel at which the main phase ends (past every deadline the case can create)

The monitor keeps a *deadline book* that is derived only from the configuration and from what
was observed at the boundary (our octets on the wire, the peer's scripted reactions, the
transport close request, application callbacks) - never from the library's timer handles:

    open   armed at connection-made,            D = t + openHandshakeTimeout
    close  armed when OUR (initiating) close frame is on the wire, D = t + closeHandshakeTimeout
    drop   client only: closing handshake complete (both close frames exchanged),
                                                 D = t + serverConnectionDropTimeout
    ping   armed when an auto-ping is on the wire, D = t + autoPingTimeout

All library timers floor to whole seconds (txaio batched timer: ``int(now + delay)``), i.e. they
fire in (D - 1, D].  Verdict rules (one-sided, as in the property statement):

    * live deadline D passed and the transport was not asked to close          -> violation
    * the judgement is about the transport being GONE (connection-lost delivered), not about the request:
      a timer that closes the transport gracefully while the write buffer cannot be flushed leaves the
      connection up; connection-lost later than D for the timer that fired         -> violation
    * transport closed by a timer step at t_d: some live deadline must have
      t_d in (D - 1, D]; the close must be reported onClose(False, 1006, reason naming
      that timer)                                                              -> else violation
    * a reaction with >= 1 s to spare removes the deadline (a later drop naming that timer is a
      violation); a reaction with less margin only makes the deadline 'grey' (both outcomes ok)
    * while OPEN: the next auto-ping is on the wire in (ref + I - 1, ref + I], ref = instant the
      connection opened / the previous ping was answered
    * nothing observable happens after CLOSED (callbacks, writes, transport calls, state
      assignments, close-result attributes, exceptions reaching the framework)
    * exactly one onClose per connection; a drop caused by a peer / application action names no timer

Ordering at one instant: Twisted handles octets synchronously, so "action before the due timers" is
simply the call order.  asyncio delivers octets through the loop (the adapter queues them and a
future callback consumes them); for ``before=True`` the timer handles due at that instant are taken
out of the loop while the action is delivered and put back afterwards, for ``before="iter"`` they
stay, i.e. they run in the same ``_run_once`` as the read callback (step cause ``action+timer``).
"""

import heapq

import txaio

from . import rfc6455_ref as ref
from .ws import WS, app_events

EPS = 1e-6

TIMER_KINDS = ("open", "close", "drop", "ping")

# close-result attributes of the protocol object (public, documented in _connectionMade)
RESULT_ATTRS = ("wasClean", "wasNotCleanReason", "wasOpenHandshakeTimeout", "wasCloseHandshakeTimeout",
                "wasServerConnectionDropTimeout", "droppedByMe", "closedByMe", "failedByMe",
                "remoteCloseCode", "remoteCloseReason", "localCloseCode", "localCloseReason")

MASK = b"\x11\x22\x33\x44"


def reason_kind(reason):
    """Which timer does an onClose reason text name?  Loose matching on the documented phrases."""
    if not isinstance(reason, str):
        return None
    r = reason.lower()
    if "timeout" not in r and "timed out" not in r and "in time" not in r:
        return None
    if "ping" in r or "pong" in r:
        return "ping"
    if "opening" in r or "open handshake" in r:
        return "open"
    if "clos" in r:
        if "tcp" in r or "server did not drop" in r or "drop tcp" in r:
            return "drop"
        return "close"
    return "other"


class NullRecorder:
    def __init__(self):
        self.violations = []
        self.counters = {}
        self.sets = {}

    def count(self, name, n=1):
        self.counters[name] = self.counters.get(name, 0) + n

    def seen(self, name, key):
        self.sets.setdefault(name, set()).add(key if isinstance(key, str) else repr(key))

    def sample(self, *a, **k):
        pass

    def violation(self, key, what, detail=None, replay=None):
        self.violations.append((key, what, detail))


class AbortCase(Exception):
    """The time line cannot usefully continue (e.g. an endless ping/pong exchange at one virtual instant)."""


class Deadline:
    __slots__ = ("kind", "D", "armed", "grey", "origin", "overdue_reported")

    def __init__(self, kind, D, armed, origin=None):
        self.kind, self.D, self.armed, self.origin = kind, D, armed, origin
        self.grey = False
        self.overdue_reported = False

    def to_json(self):
        return {"kind": self.kind, "D": round(self.D, 6), "armed": round(self.armed, 6), "grey": self.grey,
                "origin": self.origin}


def jump(world, t):
    """Move the virtual clock to ``t`` WITHOUT running timers (they run with the next step)."""
    if world.fw == "tx":
        if t > world.clock.rightNow:
            world.clock.rightNow = t
    else:
        if t > world.loop._vtime:
            world.loop._vtime = t


def hold_due_timers(world, t):
    """asyncio only: take the timer handles that are due at ``t`` out of the loop so that an action
    performed at ``t`` (whose delivery runs the loop until idle) is strictly ordered BEFORE them.
    Returns the held handles; give them back with ``release_timers``."""
    if world.fw != "aio":
        return []
    loop = world.loop
    held = [hd for hd in loop._scheduled if hd._when <= t + EPS]
    if held:
        ids = set(map(id, held))
        loop._scheduled[:] = [hd for hd in loop._scheduled if id(hd) not in ids]
        heapq.heapify(loop._scheduled)
    return held


def release_timers(world, held):
    for hd in held:
        heapq.heappush(world.loop._scheduled, hd)


class Sim:
    def __init__(self, case, R=None, trace=False):
        self.case = case
        self.R = R if R is not None else NullRecorder()
        self.role = case["role"]
        self.opts = dict(case.get("opts") or {})
        self.trace = [] if trace else None
        o = self.opts
        self.OHT = o.get("openHandshakeTimeout", 5)
        self.CHT = o.get("closeHandshakeTimeout", 1)
        self.SCDT = o.get("serverConnectionDropTimeout", 1) if self.role == "client" else 0
        self.I = o.get("autoPingInterval", 0)
        self.T = o.get("autoPingTimeout", 0)
        self.restart = o.get("autoPingRestartOnAnyTraffic", True)
        # ---- book
        self.live = {}
        self.responsive = {}        # kind -> (r, D) of the latest reaction with >= 1 s to spare
        self.resp_open = []         # [kind, r, D] reactions in time whose deadline has not passed yet (not yet credited)
        self.phase = "connecting"   # connecting | open | closing | closed
        self.hs_sent = 0            # 0 nothing, 1 first part, 2 complete
        self.proxy = bool(case.get("proxy")) and self.role == "client"
        self.px_sent = 0            # answer to CONNECT: 0 nothing, 1 first part, 2 complete
        self.px_head_done = not self.proxy
        self.stream_left = 0        # octets still missing in the frame the application is streaming out (0: not inside a frame)
        self.stream_msg = False     # a streamed message has been begun and not ended
        self.stream_spans = []      # [start, end|None] periods during which the application was inside a streamed frame
        self.closes_again = 0       # close frames the peer sent after its first one
        self.close_cause = None     # what made US send the initiating close frame: 'api' | 'onopen' | 'fail:<action>' 
        self.our_close_at = None
        self.peer_close_at = None
        self.pending_ping = None    # (t, payload) of the unanswered auto-ping on the wire
        self.prev_ping_payload = None
        self.pings = []
        self.ping_due = None        # (ref, lo, hi) expectation for the next ping while OPEN
        self.ping_overdue_reported = False
        self.msg_open = False       # a fragmented data message of the peer is in progress
        self.dropped_at = None
        self.drop_how = None
        self.drop_cause = None
        self.lost = False
        self.lost_at = None
        self.snap_closed = None
        self.snap_lost = None
        self.n_escaped = 0
        self.wire = bytearray()
        self.head_done = False
        self.head = b""
        self.key = None
        self.agenda = []
        self.seq = 0
        self.n_app = 0
        self.timer_steps = 0
        self.timer_steps_after_lost = 0
        self.violated = False
        self.fired = set()          # which deciding monitors fired in this case
        self.timer_drop_kind = None
        self.peer_dropped = False

    # ---------------------------------------------------------------------------------------
    def log(self, *a):
        if self.trace is not None:
            self.trace.append((round(self.W.now() - getattr(self, "t_c", self.base), 6),) + a)

    def viol(self, key, what, **detail):
        self.violated = True
        detail["case"] = self.case
        detail["t_rel"] = round(self.W.now() - self.t_c, 6) if hasattr(self, "t_c") else None
        detail["book"] = {k: d.to_json() for k, d in self.live.items()}
        detail["phase"] = self.phase
        detail["app"] = [list(map(_j, e)) for e in app_events(self.ep)][-6:] if hasattr(self, "ep") else None
        self.R.violation("C17/%s/%s" % (self.role, key), what, detail, self.case)

    def rel(self, t):
        return round(t - self.t_c, 6)

    # ---------------------------------------------------------------------------------------
    def run(self):
        case = self.case
        self.ws = WS()
        self.W = W = self.ws.world
        try:
            return self._run()
        finally:
            if W.fw == "aio":
                W.close()

    def _run(self):
        case, W, R = self.case, self.W, self.R
        self.base = W.now()
        if case.get("t0"):
            W.advance(case["t0"])
        opts = dict(self.opts)
        if self.role == "server":
            opts.pop("serverConnectionDropTimeout", None)    # client-only option
            f = self.ws.server_factory(options=opts)
        else:
            f = self.ws.client_factory(options=opts, **({"proxy": {"host": "10.9.8.7", "port": 3128}} if self.proxy else {}))
        if case.get("onopen") == "close":
            f.vf_on_open = lambda proto: proto.sendClose(1000, "bye from onOpen")
            self.close_cause = "onopen"
        self.t_c = W.now()
        self.ep = ep = self.ws.attach(f, self.role)
        self.proto = ep.proto
        if self.OHT > 0:
            self.live["open"] = Deadline("open", self.t_c + self.OHT, self.t_c)
        self.after_step("connect")
        for a in case.get("acts") or []:
            t_rel, kind = a[0], a[1]
            before = _mode(a[2]) if len(a) > 2 else False
            self.push(self.t_c + t_rel, kind, before)
        self.horizon0 = self.horizon = self.t_c + case["horizon"]
        # ---- main phase
        try:
            self.main_phase()
        except AbortCase:
            R.count("cases_aborted")
        # ---- end of main phase: everything the case could create is past
        self.finish()
        self.post_close()
        self.evidence()
        return self

    def main_phase(self):
        W = self.W
        for _ in range(100000):
            # the horizon moves out (bounded) while an unjudged deadline is still ahead
            for dl in self.live.values():
                if not dl.grey and not dl.overdue_reported and dl.D + 1.5 > self.horizon:
                    self.horizon = min(dl.D + 1.5, self.horizon0 + 40.0)
            ta = self.agenda[0][0] if self.agenda else None
            if ta is not None and ta > self.horizon + EPS:
                ta = None
            nd = W.next_deadline()
            if nd is not None:
                if ta is not None:
                    before = self.agenda[0][3]
                    fire = nd < ta - EPS or (nd <= ta + EPS and before is False)
                else:
                    fire = nd <= self.horizon + EPS
                if fire:
                    W.advance_to(max(nd, W.now()))
                    self.timer_steps += 1
                    if self.lost:
                        self.timer_steps_after_lost += 1
                    self.after_step("timer")
                    continue
            if ta is None:
                break
            t, _, kind, before = heapq.heappop(self.agenda)
            jump(W, t)
            timers_due = nd is not None and nd <= t + EPS
            held = hold_due_timers(W, t) if (before is True and timers_due) else []
            try:
                self.perform(kind)
            finally:
                release_timers(W, held)
            if timers_due and before == "iter" and W.fw == "aio":
                # the due timers ran inside the delivery of this action (same loop iteration)
                self.timer_steps += 1
                self.R.count("same_iteration_steps")
                self.after_step("action+timer:" + kind)
            else:
                self.after_step("action:" + kind)
        else:
            raise RuntimeError("C17 sim: main loop did not terminate")
        if W.now() < self.horizon:
            jump(W, self.horizon)
            W.settle()
            self.after_step("timer")

    def credit(self, k):
        """A peer that met deadline ``k`` with >= 1 s to spare was not dropped by that timer (deciding monitor)."""
        self.R.count("responsive_not_dropped_%s" % k)
        self.fired.add("responsive-" + k)
        if k == "close" and (self.close_cause or "").startswith("fail:"):
            self.R.count("responsive_not_dropped_failclose")
        if k == "open" and self.proxy:
            self.R.count("responsive_not_dropped_open_proxy")

    def count_deadline(self, k):
        """A deadline of kind ``k`` was judged on a silent peer (deciding monitor)."""
        R = self.R
        R.count("deadline_evaluated_%s_%s" % (k, self.role))
        if k == "close" and (self.close_cause or "").startswith("fail:"):
            R.count("deadline_evaluated_failclose_%s" % self.role)
            R.seen("failclose_kinds", "%s/%s" % (self.role, self.close_cause))
        if k == "open" and self.proxy:
            R.count("deadline_evaluated_open_proxy_%s" % ("pending" if self.px_sent != 2 else "answered"))
        if k == "drop" and self.closes_again:
            R.count("deadline_evaluated_drop_after_repeated_close")

    def push(self, t, kind, before=False):
        self.seq += 1
        heapq.heappush(self.agenda, (t, self.seq, kind, before))

    # ---------------------------------------------------------------------------------------
    # peer / application actions
    # ---------------------------------------------------------------------------------------
    def frame(self, opcode, payload=b"", fin=True):
        return ref.encode_frame(opcode, payload, fin=fin, mask=MASK if self.role == "server" else None)

    def can_feed(self):
        return not self.lost and self.dropped_at is None and self.ep.close_requested is None

    def handshake_bytes(self):
        if self.role == "server":
            req, _ = ref.client_request(key="dGhlIHNhbXBsZSBub25jZQ==")
            return req
        return ref.server_response(self.key) if self.key else b""

    def perform(self, kind):
        W, ep = self.W, self.ep
        now = W.now()
        self.log("act", kind)
        if kind == "lost":                     # delayed delivery of our own close request
            self.deliver_lost()
            return
        if kind in ("st_begin", "st_data", "st_end", "st_frame"):
            # frame STREAMING API: beginMessage / beginMessageFrame / sendMessageFrameData ... endMessage.  The octets the
            # application streams are taken off the transport here (they are not library-framed writes); everything the
            # library writes on its own (auto-pings, close frames) is a complete frame per write and is parsed as before.
            # One exception: the call that completes a frame may be followed, in the same write burst, by PING/PONG
            # frames the library had to hold back while the frame was half-sent (S-01e): whatever follows the exact
            # number of payload octets handed over in that call is put on the recorded wire for after_step().
            if self.lost or self.phase != "open" or self.dropped_at is not None:
                return
            p = self.proto
            if kind in ("st_begin", "st_frame") and self.stream_left == 0:
                if not self.stream_msg:
                    p.beginMessage(isBinary=True)
                    self.stream_msg = True
                p.beginMessageFrame(64)
                self.stream_left = 64
                self.stream_spans.append([now, None])
                self.R.count("streamed_frames_begun")
            if kind == "st_data" and self.stream_left:
                n = min(16, self.stream_left - 1)          # never completes the frame: st_end / st_frame do
                if n > 0:
                    p.sendMessageFrameData(b"s" * n)
                    self.stream_left -= n
            if kind in ("st_end", "st_frame") and (self.stream_left or self.stream_msg):
                if self.stream_left:
                    self.stream_taken = getattr(self, "stream_taken", 0) + len(ep.take_output())
                    p.sendMessageFrameData(b"e" * self.stream_left)
                    out = ep.take_output()
                    if len(out) > self.stream_left:
                        self.wire += out[self.stream_left:]
                    self.stream_left = 0
                    self.stream_spans[-1][1] = now
                    self.frame_completed_in_step = True
                if kind == "st_end":
                    p.endMessage()
                    self.stream_msg = False
            self.stream_taken = getattr(self, "stream_taken", 0) + len(ep.take_output())
            return
        if kind == "api_send":
            # the application queues data (it is what sits in the write buffer when the peer stops reading)
            if self.stream_msg:
                return          # sendMessage() inside a streamed message is an API misuse
            if not self.lost and self.phase == "open" and self.dropped_at is None:
                for _ in range(6):       # small messages: maxMessagePayloadSize (64 in some cases) also limits what we may send
                    self.proto.sendMessage(b"queued-data-" * 4, isBinary=True)
                if W.fw == "aio":
                    W.settle()
            return
        if kind == "api_close":
            if not self.lost and self.phase == "open" and self.dropped_at is None:
                self.close_cause = self.close_cause or "api"
                self.proto.sendClose(1000, "bye")
                if W.fw == "aio":        # Twisted: everything ran synchronously; settle() would also run the timers due now
                    W.settle()
            return
        if kind == "drop" or kind == "drop_clean":
            if self.lost:
                return
            if self.dropped_at is not None:
                # our side already asked the transport to close: the notification arrives now at the latest
                self.deliver_lost()
                return
            self.react("drop", now)
            self.react_all_void()
            self.snap_closed = None
            self.peer_dropped = True
            ep.peer_close(clean=(kind == "drop_clean"))
            self.on_lost("peer")
            return
        if not self.can_feed():
            return
        if kind in ("px", "px_a", "px_b", "px_deny"):
            if not self.proxy or self.px_sent == 2:
                return
            data = (b"HTTP/1.1 403 Forbidden\r\n\r\n" if kind == "px_deny" else
                    b"HTTP/1.1 200 Connection established\r\nProxy-Agent: vf\r\n\r\n")
            half = len(data) // 2
            if kind == "px_a":
                if not self.px_sent:
                    ep.feed(data[:half])
                    self.px_sent = 1
                return
            ep.feed(data[half:] if self.px_sent == 1 else data)
            self.px_sent = 2
            return
        if self.proxy and self.px_sent != 2:
            return          # the server behind the proxy cannot be reached yet
        if kind in ("hs", "hs_a", "hs_b"):
            data = self.handshake_bytes()
            if not data or self.hs_sent == 2:
                return
            half = len(data) // 2
            if kind == "hs_a":
                if self.hs_sent:
                    return
                ep.feed(data[:half])
                self.hs_sent = 1
                return
            ep.feed(data[half:] if self.hs_sent == 1 else data)
            self.hs_sent = 2
            self.react("open", now)
            return
        if self.hs_sent != 2:
            return          # frames make no sense before the handshake
        if kind == "close":
            if self.peer_close_at is not None:
                return
            self.peer_close_at = now
            if self.our_close_at is not None:
                # reply to the close we initiated
                self.react("close", now)
                if self.role == "client" and self.SCDT > 0:
                    self.live["drop"] = Deadline("drop", now + self.SCDT, now, origin="we-initiated")
            ep.feed(self.frame(ref.OP_CLOSE, ref.close_payload(1000, "peer bye")))
            return
        if kind in ("close_again", "data_again", "ping_again"):
            # a peer that keeps talking after its close frame (the deadlines armed so far are NOT re-armed by that)
            if self.peer_close_at is None:
                return
            if kind == "close_again":
                self.closes_again += 1
                self.R.count("close_frames_after_peer_close")
                ep.feed(self.frame(ref.OP_CLOSE, ref.close_payload(1000, "peer bye again")))
            elif kind == "data_again":
                ep.feed(self.frame(ref.OP_TEXT, b"late"))
            else:
                ep.feed(self.frame(ref.OP_PING, b"late-ping"))
            return
        if self.peer_close_at is not None:
            return          # nothing but silence after the peer's close frame (apart from the *_again actions)
        if kind == "pong":
            pl = self.pending_ping[1] if self.pending_ping else b""
            if self.pending_ping:
                self.react_ping(now)
            ep.feed(self.frame(ref.OP_PONG, pl))
            return
        if kind == "pong_wrong":
            pl = self.pending_ping[1] if self.pending_ping else b"x"
            pl = bytes([pl[0] ^ 0x01]) + pl[1:]
            ep.feed(self.frame(ref.OP_PONG, pl))
            return
        if kind == "pong_stale":
            pl = self.prev_ping_payload or b"stale"
            ep.feed(self.frame(ref.OP_PONG, pl))
            return
        if kind in ("data", "dataf"):
            fin = kind == "data"
            op = ref.OP_CONT if self.msg_open else ref.OP_TEXT
            self.msg_open = not fin
            if self.pending_ping and self.restart and self.T > 0:
                self.react_ping(now)
            ep.feed(self.frame(op, b"tick", fin=fin))
            return
        if kind == "ping":
            ep.feed(self.frame(ref.OP_PING, b"peer-ping"))
            return
        if kind in ("bad", "bad_rsv", "bad_utf8", "big"):
            # the peer violates the protocol: with failByDrop=False WE start a closing handshake (1002 / 1007 / 1009),
            # with failByDrop=True the transport is dropped at once
            mask = MASK if self.role == "server" else None
            if kind == "big" and not (0 < (self.opts.get("maxMessagePayloadSize") or 0) < 300):
                # no limit configured: an ordinary 300-byte binary message, i.e. plain data traffic
                if self.msg_open:
                    return
                if self.pending_ping and self.restart and self.T > 0:
                    self.react_ping(now)
                ep.feed(ref.encode_frame(ref.OP_BIN, b"B" * 300, mask=mask))
                return
            if self.our_close_at is None and self.phase == "open":
                self.close_cause = self.close_cause or ("fail:" + kind)
            if kind == "bad":
                data = self.frame(3, b"")                                          # reserved opcode
            elif kind == "bad_rsv":
                data = ref.encode_frame(ref.OP_TEXT, b"x", rsv=4, mask=mask)       # RSV1 without an extension
            elif kind == "bad_utf8":
                data = ref.encode_frame(ref.OP_TEXT, b"\xff\xfe\xfd", mask=mask)   # invalid UTF-8 in a text message
            else:
                data = ref.encode_frame(ref.OP_BIN, b"B" * 300, mask=mask)      # > maxMessagePayloadSize (when configured)
            self.msg_open = False
            if self.pending_ping and self.restart and self.T > 0:
                # a (violating) non-control frame is still traffic: whether it stands in for the pong is left open, so the
                # ping deadline becomes grey and the peer no longer knows a ping it could answer (no cadence expectation either)
                self.react("ping", now, force_grey=True)
                self.prev_ping_payload = self.pending_ping[1]
                self.pending_ping = None
            ep.feed(data)
            return
        raise ValueError("unknown action %r" % (kind,))

    # ---------------------------------------------------------------------------------------
    # book keeping
    # ---------------------------------------------------------------------------------------
    def react(self, kind, r, force_grey=False):
        dl = self.live.get(kind)
        if dl is None:
            return
        margin = dl.D - r
        if margin >= 1.0 - EPS and not force_grey:
            del self.live[kind]
            self.responsive[kind] = (r, dl.D)
            self.resp_open.append([kind, r, dl.D])
            self.R.count("reaction_in_time_%s" % kind)
        else:
            dl.grey = True
            self.R.count("reaction_grey_%s" % kind)

    def react_all_void(self):
        self.live.clear()
        self.ping_due = None

    def react_ping(self, r):
        """The peer answered the pending auto-ping (matching pong, or data when so configured)."""
        # reactions after a close frame (either side) are honoured by the library today; the statement
        # does not clearly demand it -> grey
        self.react("ping", r, force_grey=(self.phase != "open"))
        self.prev_ping_payload = self.pending_ping[1]
        self.pending_ping = None
        if self.phase == "open" and self.I > 0:
            self.ping_due = (r, r + self.I - 1.0, r + self.I)
            self.ping_overdue_reported = False

    def ping_hi(self, lo, hi):
        """Latest instant for the next auto-ping: ``hi``, unless the application was inside a streamed frame at some
        instant of (lo, hi] - then the ping may be postponed until one interval after that frame was finished."""
        over = False
        for st, en in self.stream_spans:
            if st <= hi + EPS and (en is None or en > lo + EPS):
                over = True
                if en is None:
                    return float("inf"), True
                hi = max(hi, en + self.I)
        return hi, over

    def on_ping_written(self, t, payload):
        R = self.R
        self.pings.append((t, payload))
        R.count("pings_on_wire")
        if len(self.pings) > 25 and t - self.pings[-25][0] < EPS:
            self.viol("auto-ping-storm", "25 auto-pings written at one virtual instant (%s), autoPingInterval is %s" % (self.rel(t), self.I))
            raise AbortCase()
        if self.ping_due is not None:
            refi, lo, hi = self.ping_due
            hi, over = self.ping_hi(lo, hi)
            R.count("ping_intervals_measured")
            if over:
                R.count("ping_intervals_measured_streaming")
            if self.stream_left:
                R.count("pings_written_mid_frame")
            self.fired.add("ping-interval")
            if t > hi + EPS:
                if not self.ping_overdue_reported:
                    self.viol("auto-ping-late", "auto-ping written %.3f s after the reference instant, interval is %s" % (
                        t - refi, self.I), ping_at=self.rel(t), ref=self.rel(refi))
            elif t <= lo + EPS:
                self.viol("auto-ping-early", "auto-ping written %.3f s after the reference instant, interval is %s "
                          "(more than the 1 s timer granularity early)" % (t - refi, self.I),
                          ping_at=self.rel(t), ref=self.rel(refi))
            self.ping_due = None
        else:
            R.count("pings_unscheduled")      # not asserted (see ASSUMPTIONS)
        if self.pending_ping is not None:
            self.prev_ping_payload = self.pending_ping[1]
        self.pending_ping = (t, payload)
        if self.T > 0:
            self.live["ping"] = Deadline("ping", t + self.T, t)
        else:
            self.live.pop("ping", None)
        n = len(self.pings) - 1
        for rule in self.case.get("rules") or []:
            if rule.get("on") != "ping":
                continue
            first = rule.get("first", 0)
            cnt = rule.get("count")
            if n < first or (cnt is not None and n >= first + cnt):
                continue
            self.push(t + rule["delay"], rule["do"], _mode(rule.get("before")))

    def on_our_close_written(self, t):
        if self.our_close_at is not None:
            return
        self.our_close_at = t
        self.phase = "closing"
        self.ping_due = None
        if self.peer_close_at is None:
            if self.CHT > 0:
                self.live["close"] = Deadline("close", t + self.CHT, t)
        else:
            # our reply: the closing handshake is complete; a client now waits for the server to drop TCP
            if self.role == "client" and self.SCDT > 0:
                self.live["drop"] = Deadline("drop", t + self.SCDT, t, origin="peer-initiated")

    # ---------------------------------------------------------------------------------------
    def snapshot(self):
        p = self.proto
        d = p.__dict__
        return {
            "app": len(d.get("vf_app", ())),
            "state": len(d.get("vf_state_log", ())),
            "io": len(self.ep.events),
            "attrs": tuple(repr(d.get(a, "<unset>")) for a in RESULT_ATTRS),
            "escaped": len(self.W.escaped) + len(self.ep.escaped),
        }

    def diff_snap(self, a, b):
        out = []
        if b["app"] != a["app"]:
            ev = app_events(self.ep)[a["app"]:b["app"]]
            out.append(("callback:" + "+".join(sorted(set(e[1] for e in ev))), [list(map(_j, e)) for e in ev]))
        if b["state"] != a["state"]:
            out.append(("state-assignment", self.proto.vf_state_log[a["state"]:b["state"]]))
        if b["io"] != a["io"]:
            ev = [e for e in self.ep.events[a["io"]:b["io"]]]
            kinds = sorted(set(e[1] for e in ev))
            out.append(("transport:" + "+".join(kinds), [list(map(_j, e)) for e in ev][:6]))
        if b["attrs"] != a["attrs"]:
            ch = [n for n, x, y in zip(RESULT_ATTRS, a["attrs"], b["attrs"]) if x != y]
            tag = "attr:" + "+".join(ch)
            if "wasNotCleanReason" in ch:
                tag += "/names-%s" % reason_kind(self.proto.__dict__.get("wasNotCleanReason"))
            out.append((tag, {n: (x, y) for n, x, y in zip(RESULT_ATTRS, a["attrs"], b["attrs"]) if x != y}))
        if b["escaped"] != a["escaped"]:
            out.append(("exception", [repr(e) for e in (self.W.escaped + [(0, x) for x in self.ep.escaped])][-3:]))
        return out

    def after_step(self, cause):
        W, ep, R = self.W, self.ep, self.R
        now = W.now()
        # 1. our octets
        data = ep.take_output()
        if data or (getattr(self, "frame_completed_in_step", False) and self.wire):
            self.wire += data
            if not self.px_head_done:
                k = self.wire.find(b"\r\n\r\n")
                if k >= 0:
                    self.connect_head = bytes(self.wire[:k + 4])
                    del self.wire[:k + 4]
                    self.px_head_done = True
                    if not self.connect_head.startswith(b"CONNECT "):
                        self.viol("proxy/no-connect-request", "client with a proxy did not start with CONNECT: %r" % self.connect_head[:60])
            if self.px_head_done and not self.head_done:
                k = self.wire.find(b"\r\n\r\n")
                if k >= 0:
                    self.head = bytes(self.wire[:k + 4])
                    del self.wire[:k + 4]
                    self.head_done = True
                    if self.role == "client":
                        parsed = ref.parse_http_head(self.head)
                        self.key = (parsed[1].get("sec-websocket-key") or [None])[0] if parsed else None
            if self.head_done and self.wire:
                frames, rest = ref.parse_frames(bytes(self.wire), allow_partial=True)
                del self.wire[:len(self.wire) - len(rest)]
                for f in frames:
                    self.log("tx-frame", f.opcode, f.length)
                    if f.opcode == ref.OP_PING:
                        if getattr(self, "frame_completed_in_step", False):
                            self.R.count("pings_written_at_frame_completion")
                        self.on_ping_written(now, f.payload)
                    elif f.opcode == ref.OP_CLOSE:
                        self.on_our_close_written(now)
        self.frame_completed_in_step = False
        # 2. application callbacks
        ev = app_events(ep)
        for e in ev[self.n_app:]:
            self.log("app", e[1], e[2:])
            if e[1] == "onOpen" and self.phase == "connecting":
                self.phase = "open"
                if self.I > 0:
                    self.ping_due = (now, now + self.I - 1.0, now + self.I)
        self.n_app = len(ev)
        # 3. exceptions that reached the framework
        nesc = len(W.escaped) + len(ep.escaped)
        if nesc != self.n_escaped:
            allesc = [x[1] for x in W.escaped] + list(ep.escaped)
            e = allesc[-1]
            if not self.lost:    # after CLOSED it is reported by the silence check
                self.viol("escaped/%s/%s" % ("timer" if cause == "timer" else ("io+timer" if cause.startswith("action+timer") else "io"), type(e.exc).__name__),
                          "exception reached the framework during a %s step: %r" % (cause, e), cause=cause)
            self.n_escaped = nesc
        # 4. effects between CLOSED (our close request) and the delivery of connection-lost
        if self.snap_closed is not None and not self.lost and cause == "timer":   # (no octets are fed after our close request)
            s = self.snapshot()
            d = self.diff_snap(self.snap_closed, s)
            R.count("closed_not_lost_timer_steps")
            self.fired.add("closed-not-lost")
            for what, info in d:
                self.viol("effect-after-closed/before-connection-lost/%s" % what,
                          "a timer had an effect after the connection was CLOSED (transport close requested at %s, "
                          "connection-lost not yet delivered): %s" % (self.rel(self.dropped_at), what), info=info)
            self.snap_closed = s
        # 5. transport close request = the drop
        if ep.close_requested is not None and self.dropped_at is None and not self.lost:
            self.dropped_at = ep.close_requested_at
            self.drop_how = ep.close_requested
            self.drop_cause = cause.split(":")[0] if cause.startswith("action+timer") else cause
            self.phase_at_drop = self.phase
            self.live_at_drop = dict(self.live)
            self.pending_ping_at_drop = self.pending_ping
            self.phase = "closed"
            self.ping_due = None
            self.log("drop", self.drop_how, cause)
            delay = self.case.get("lost_delay")
            if delay and self.drop_how == "lose":
                # graceful close with an unflushed write buffer: the transport stays up for `delay` (or for good)
                self.snap_closed = self.snapshot()
                if delay != "never":
                    self.push(now + delay, "lost", False)
            else:
                self.deliver_lost()
        # 6. overdue deadlines
        if self.dropped_at is None and not self.lost:
            if self.resp_open:
                keep = []
                for it in self.resp_open:
                    if now > it[2] + EPS:        # the deadline the peer met has passed and we are still connected
                        self.credit(it[0])
                    else:
                        keep.append(it)
                self.resp_open = keep
            for k, dl in list(self.live.items()):
                if dl.grey and now > dl.D + EPS:
                    # a reaction with less than 1 s to spare was evidently accepted: the deadline is over
                    del self.live[k]
                    R.count("grey_reaction_accepted_%s" % k)
                    continue
                if not dl.grey and not dl.overdue_reported and now > dl.D + EPS:
                    dl.overdue_reported = True
                    self.fired.add("deadline-" + k)
                    self.count_deadline(k)
                    if k == "drop" and dl.origin == "peer-initiated":
                        key = "no-drop-timer-after-replying-to-server-close"
                    else:
                        key = "not-dropped-by-deadline/%s" % k
                    self.viol(key, "%s deadline passed (armed at %s, D=%s) and the transport was not asked to close "
                              "(peer silent)" % (k, self.rel(dl.armed), self.rel(dl.D)))
            if self.ping_due is not None and self.phase == "open" and not self.ping_overdue_reported:
                refi, lo, hi = self.ping_due
                hi, over = self.ping_hi(lo, hi)
                if now > hi + EPS:
                    self.ping_overdue_reported = True
                    R.count("ping_intervals_measured")
                    if over:
                        R.count("ping_intervals_measured_streaming")
                    self.fired.add("ping-interval")
                    self.viol("auto-ping-missing", "connection OPEN, reference instant %s, autoPingInterval %s: no auto-ping "
                              "on the wire by %s" % (self.rel(refi), self.I, self.rel(hi)))

    # ---------------------------------------------------------------------------------------
    def deliver_lost(self):
        if self.lost:
            return
        if self.snap_closed is not None:
            s = self.snapshot()
            for what, info in self.diff_snap(self.snap_closed, s):
                self.viol("effect-after-closed/before-connection-lost/%s" % what,
                          "an effect was observed between CLOSED and connection-lost: %s" % what, info=info)
            self.snap_closed = None
        self.ep.finish_close()
        self.on_lost("self")

    def on_lost(self, who):
        """connection-lost has been delivered to the protocol: evaluate the report."""
        R = self.R
        self.lost = True
        self.lost_at = self.W.now()
        self.phase = "closed"
        self.ping_due = None
        closes = app_events(self.ep, ("onClose",))
        self.n_app = len(app_events(self.ep))
        self.log("lost", who, [e[2:] for e in closes])
        self.snap_lost = self.snapshot()
        R.seen("close_reports", "%s/%s/%s" % (who, closes[0][2:4] if closes else None,
                                              reason_kind(closes[0][4]) if closes else None))
        if len(closes) != 1:
            slog = list(self.proto.__dict__.get("vf_state_log", ()))
            reopened = [(a, b) for a, b in slog if a == 0 and b != 0]
            sub = "%s-%s" % (getattr(self, "phase_at_drop", self.phase), (self.drop_cause or who).split(":")[0])
            if reopened:
                sub += "/state-left-CLOSED"
            self.viol("onclose-count/%d/%s" % (len(closes), sub),
                      "onClose was called %d times for one connection (drop: %s at %s; state assignments %s; escaped %s)" % (
                          len(closes), self.drop_cause or who, self.rel(self.dropped_at) if self.dropped_at is not None else None,
                          slog, [repr(x) for x in self.ep.escaped][-2:]))
            if not closes:
                return
        _, _, was_clean, code, reason = closes[0]
        rk = reason_kind(reason)
        if who == "peer":
            # the peer (or the harness at the horizon) dropped TCP: no timer may be named
            if rk is not None:
                self.viol("wrong-report/peer-drop-reported-as-%s-timeout" % rk,
                          "peer dropped the TCP connection at %s but onClose names a timer: %r" % (self.rel(self.lost_at), reason))
            return
        t_d = self.dropped_at
        live = self.live_at_drop
        cands = [k for k, dl in live.items() if dl.D - 1.0 + EPS < t_d <= dl.D + EPS]
        timer_step = (self.drop_cause == "timer")
        if self.drop_cause == "action+timer":
            # octets and due timers were handled in one loop iteration: the drop is the timer's iff a timer is named
            timer_step = rk is not None
        if not timer_step:
            # dropped as the direct consequence of a peer/application action: no timer may be named
            if rk is not None:
                self.viol("timer-reported-for-non-timer-drop/%s/%s" % (rk, "lost-delayed" if self.lost_at > t_d + EPS else "lost-at-once"),
                          "transport closed at %s by %s (no timer involved), connection-lost delivered at %s, but onClose(%r, %r, %r) "
                          "names a timer" % (self.rel(t_d), self.drop_cause, self.rel(self.lost_at), was_clean, code, reason))
            return
        self.timer_drop_kind = rk
        R.count("timer_drops_evaluated")
        if self.case.get("lost_delay"):
            # the write buffer could not be flushed when the timer fired: only an abortive close ends the connection in time
            R.count("timer_drops_unflushable_buffer")
            R.seen("unflushable_timer_kinds", "%s/%s/%s" % (self.role, rk, self.drop_how))
            self.fired.add("unflushable-buffer")
            for k in ([rk] if rk in cands else cands):      # the timer that is blamed, else every timer that was due
                dl = live[k]
                if not dl.grey and self.lost_at > dl.D + EPS:
                    self.viol("transport-not-gone-by-deadline/%s" % k,
                              "the %s timer fired at %s (D=%s) but closed the transport gracefully (%s) while the write buffer could "
                              "not be flushed (peer not reading): connection-lost / onClose only at %s" % (
                                  k, self.rel(t_d), self.rel(dl.D), "loseConnection()/close()", self.rel(self.lost_at)),
                              lost_delay=self.case.get("lost_delay"))
        if rk in cands:
            self.fired.add("deadline-" + rk)
            self.count_deadline(rk)
            R.seen("drop_lead", "%s/%.2f" % (rk, live[rk].D - t_d))
            if was_clean is not False or code != 1006:
                self.viol("wrong-report/%s" % rk, "silent peer dropped by the %s timer on time but reported as "
                          "onClose(%r, %r, %r), expected (False, 1006, <reason naming the timer>)" % (rk, was_clean, code, reason))
            return
        if rk is not None and rk in live:
            dl = live[rk]
            self.fired.add("deadline-" + rk)
            self.count_deadline(rk)
            if dl.grey and t_d > dl.D + EPS:
                self.viol("spurious-timer-drop/%s/%s" % (rk, self.phase_at_drop + ("-no-ping-on-wire" if rk == "ping" and self.pending_ping_at_drop is None else "")),
                          "dropped at %s and reported %r, but the only %s deadline (D=%s) was over" % (self.rel(t_d), reason, rk, self.rel(dl.D)))
            elif not dl.grey and not dl.overdue_reported and t_d > dl.D + EPS:
                self.viol("not-dropped-by-deadline/%s" % rk, "dropped by the %s timer %.3f s AFTER its deadline (armed %s, D=%s, dropped %s)" % (
                    rk, t_d - dl.D, self.rel(dl.armed), self.rel(dl.D), self.rel(t_d)))
            elif t_d <= dl.D - 1.0 + EPS:
                self.viol("dropped-early/%s" % rk, "dropped by the %s timer %.3f s before its deadline (armed %s, D=%s, dropped %s): "
                          "a peer with 1 s to spare would have been cut off" % (rk, dl.D - t_d, self.rel(dl.armed), self.rel(dl.D), self.rel(t_d)))
            # late drops were reported as not-dropped-by-deadline already
            return
        if rk is not None:
            # a timer drop naming a timer for which no deadline is running
            if rk == "ping" and self.pending_ping_at_drop is None:
                self.viol("spurious-timer-drop/ping/%s-no-ping-on-wire" % self.phase_at_drop,
                          "dropped at %s and reported %r, but no auto-ping was on the wire unanswered (%s)" % (
                              self.rel(t_d), reason, "last one answered at %s" % self.rel(self.responsive["ping"][0])
                              if "ping" in self.responsive else "none was ever sent / all were answered"))
            elif rk in self.responsive:
                r, D = self.responsive[rk]
                self.viol("responsive-peer-dropped/%s/%s" % (rk, self.phase_at_drop),
                          "peer reacted at %s (deadline %s, %.2f s to spare) and was dropped at %s with %r" % (
                              self.rel(r), self.rel(D), D - r, self.rel(t_d), reason))
            else:
                sub = self.phase_at_drop
                if rk == "ping" and self.pending_ping_at_drop is None:
                    sub += "-no-ping-on-wire"
                self.viol("spurious-timer-drop/%s/%s" % (rk, sub),
                          "dropped at %s and reported %r, but no %s deadline was running (%s)" % (
                              self.rel(t_d), reason, rk, "no unanswered auto-ping on the wire" if rk == "ping" else "never armed / option is 0"))
            return
        # timer step, no timer named
        if cands:
            self.viol("wrong-report/%s" % cands[0], "silent peer dropped on the %s deadline but reported as onClose(%r, %r, %r)" % (
                cands[0], was_clean, code, reason))
        else:
            self.viol("timer-drop-unexplained/%s" % self.phase_at_drop,
                      "a timer step closed the transport at %s, no deadline was due and onClose(%r, %r, %r) names none" % (
                          self.rel(t_d), was_clean, code, reason))

    # ---------------------------------------------------------------------------------------
    def finish(self):
        """Horizon reached: every live non-grey deadline has been judged.  Close what is still connected."""
        if self.lost:
            return
        if self.dropped_at is not None:
            self.deliver_lost()
            return
        for k in list(self.live):
            if not self.live[k].grey and not self.live[k].overdue_reported:
                self.R.count("unjudged_deadline_at_horizon")
        # still connected (reactions whose deadline passed were credited when it passed)
        self.R.seen("final_phase", self.phase)
        self.react_all_void()
        self.ep.peer_close(clean=False)
        self.on_lost("peer")

    def post_close(self):
        W, R = self.W, self.R
        if not self.lost:
            return
        before = self.snap_lost
        fired = 0
        for _ in range(200):
            nd = W.next_deadline()
            if nd is None:
                break
            W.advance_to(max(nd, W.now()))
            fired += 1
        W.advance(3600.0)
        after = self.snapshot()
        R.count("postclose_checks")
        R.count("postclose_timer_steps", fired + self.timer_steps_after_lost)
        if fired + self.timer_steps_after_lost:
            self.fired.add("postclose-timer")
        for what, info in self.diff_snap(before, after):
            self.viol("effect-after-closed/after-connection-lost/%s" % what,
                      "a timer had an effect after the connection was closed and connection-lost delivered: %s" % what, info=info)
        if W.next_deadline() is not None:
            R.count("postclose_timers_still_pending")

    def evidence(self):
        R = self.R
        if self.dropped_at is not None or self.peer_dropped:
            # the connection ended before the deadline the peer had met came up: credited iff no timer of that kind is blamed
            for k, r, D in self.resp_open:
                if k != self.timer_drop_kind:
                    self.credit(k)
            self.resp_open = []
        R.seen("phases_at_drop", "%s/%s" % (getattr(self, "phase_at_drop", None), self.drop_cause))
        for a, b in self.proto.__dict__.get("vf_state_log", ()):
            R.seen("transitions", "%s->%s" % (a, b))


def _mode(b):
    return "iter" if b == "iter" else bool(b)


def _j(x):
    if isinstance(x, (bytes, bytearray)):
        return bytes(x).hex()
    if isinstance(x, float):
        return round(x, 6)
    return x


def run_case(case, R=None, trace=False):
    s = Sim(case, R, trace=trace)
    s.run()
    return s
