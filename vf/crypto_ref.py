"""Independent references for the authentication primitives of property C19.

Every primitive here comes from a DIFFERENT implementation than the one the library calls:

===================  =====================================  ==========================================
primitive            library (autobahn.wamp.auth/cryptosign)  reference (this file)
===================  =====================================  ==========================================
HMAC                 ``hmac.new`` (CPython / OpenSSL)         RFC 2104 written out over ``hashlib`` digests
PBKDF2               ``cryptography`` PBKDF2HMAC (Rust+OpenSSL) ``hashlib.pbkdf2_hmac``; RFC 8018 loop in pure
                                                              Python (``pbkdf2_py``) as third opinion
TOTP / HOTP          own code in auth.py                      RFC 4226 5.3 / RFC 6238 4.2 written here
SCRAM algebra        own code in auth.py                      RFC 5802 section 3 written here + server-side
                                                              VERIFICATION (recover ClientKey from the proof)
Argon2id             ``argon2.low_level.hash_secret``          ``argon2.low_level.hash_secret_raw`` and, for
                     (encoded form, reference C impl.)        16 byte salts, libsodium (``nacl.pwhash``)
Ed25519              PyNaCl / libsodium (sign)                 ``cryptography`` / OpenSSL (verify, public key)
XOR                  ``autobahn.util.xor``                     ``bytes(a ^ b ...)``
===================  =====================================  ==========================================

``selfcheck()`` pins the references to published vectors (RFC 2202/4231 HMAC, RFC 6070 and RFC 7914
PBKDF2, RFC 4226 HOTP, RFC 6238 TOTP, RFC 7677 SCRAM-SHA-256, RFC 8032 Ed25519, the Argon2 command
line vector committed in the repository's tests) before any verdict is computed with them.  A
reference that disagrees with a published vector raises ``RefError`` (harness error, never a
verdict).

Nothing in this file imports autobahn.
"""

import base64
import hashlib
import struct


class RefError(Exception):
    """The references disagree with each other or with a published vector (harness problem)."""


# ---------------------------------------------------------------------------------------------
# HMAC (RFC 2104), PBKDF2 (RFC 8018 5.2), XOR
# ---------------------------------------------------------------------------------------------

_BLOCK = {"sha1": 64, "sha256": 64, "sha512": 128}


def hmac_digest(key, msg, hashname="sha256"):
    """RFC 2104: H((K' xor opad) || H((K' xor ipad) || msg)), K' = H(K) if len(K) > B else K zero-padded."""
    assert isinstance(key, bytes) and isinstance(msg, bytes)
    B = _BLOCK[hashname]
    if len(key) > B:
        key = hashlib.new(hashname, key).digest()
    key = key + b"\x00" * (B - len(key))
    ipad = bytes(k ^ 0x36 for k in key)
    opad = bytes(k ^ 0x5C for k in key)
    inner = hashlib.new(hashname, ipad + msg).digest()
    return hashlib.new(hashname, opad + inner).digest()


def sha256(data):
    return hashlib.sha256(data).digest()


def xor(a, b):
    if len(a) != len(b):
        raise RefError("xor of unequal lengths %d/%d" % (len(a), len(b)))
    return bytes(x ^ y for x, y in zip(a, b))


def pbkdf2(password, salt, iterations, dklen, hashname="sha256"):
    """PBKDF2-HMAC via CPython's hashlib (the library goes through ``cryptography``)."""
    return hashlib.pbkdf2_hmac(hashname, password, salt, iterations, dklen)


def pbkdf2_py(password, salt, iterations, dklen, hashname="sha256"):
    """RFC 8018 section 5.2 written out over ``hmac_digest`` (slow; used for cross-checks)."""
    hlen = hashlib.new(hashname).digest_size
    out = b""
    i = 1
    while len(out) < dklen:
        u = hmac_digest(password, salt + struct.pack(">I", i), hashname)
        t = int.from_bytes(u, "big")
        for _ in range(iterations - 1):
            u = hmac_digest(password, u, hashname)
            t ^= int.from_bytes(u, "big")
        out += t.to_bytes(hlen, "big")
        i += 1
    return out[:dklen]


# ---------------------------------------------------------------------------------------------
# WAMP-CRA
# ---------------------------------------------------------------------------------------------

def cra_key(secret, salt=None, iterations=None, keylen=None):
    """Key used for the WAMP-CRA HMAC: the secret itself, or base64(PBKDF2-HMAC-SHA256(secret, salt, it, len))."""
    assert isinstance(secret, bytes)
    if salt is None:
        return secret
    assert isinstance(salt, bytes)
    return base64.b64encode(pbkdf2(secret, salt, iterations, keylen, "sha256"))


def cra_signature(key, challenge):
    """base64(HMAC-SHA256(key, challenge)) - what a WAMP-CRA router recomputes and compares."""
    return base64.b64encode(hmac_digest(key, challenge, "sha256"))


def cra_verify(key, challenge, signature_b64):
    """Router side: accept iff the presented signature equals the recomputed one."""
    if isinstance(signature_b64, str):
        signature_b64 = signature_b64.encode("ascii")
    return signature_b64 == cra_signature(key, challenge)


# ---------------------------------------------------------------------------------------------
# HOTP (RFC 4226) / TOTP (RFC 6238)
# ---------------------------------------------------------------------------------------------

def hotp(key, counter, digits=6, hashname="sha1"):
    hs = hmac_digest(key, struct.pack(">Q", counter), hashname)
    offset = hs[-1] & 0x0F
    binary = ((hs[offset] & 0x7F) << 24) | (hs[offset + 1] << 16) | (hs[offset + 2] << 8) | hs[offset + 3]
    return str(binary % (10 ** digits)).rjust(digits, "0")


def totp_counter(unix_time, step=30, t0=0):
    # RFC 6238 4.2: T = floor((Current Unix time - T0) / X)
    return int((unix_time - t0) // step)


def totp(key, unix_time, step=30, digits=6, offset=0):
    return hotp(key, totp_counter(unix_time, step) + offset, digits, "sha1")


# ---------------------------------------------------------------------------------------------
# Argon2id
# ---------------------------------------------------------------------------------------------

def argon2id_raw(password, salt, time_cost, memory_kib, hash_len=32):
    """Raw Argon2id v1.3 tag, parallelism 1 (fixed by WAMP-SCRAM).  16 byte salts are recomputed with
    libsodium's independent Argon2 implementation."""
    from argon2.low_level import Type, hash_secret_raw

    raw = hash_secret_raw(secret=password, salt=salt, time_cost=time_cost, memory_cost=memory_kib,
                          parallelism=1, hash_len=hash_len, type=Type.ID, version=19)
    if len(salt) == 16 and memory_kib >= 8 and hash_len >= 16:
        try:
            import nacl.pwhash.argon2id as na
        except ImportError:
            na = None
        if na is not None:
            other = na.kdf(hash_len, password, salt, opslimit=time_cost, memlimit=memory_kib * 1024)
            if other != raw:
                raise RefError("argon2-cffi and libsodium disagree on Argon2id(t=%d,m=%d)" % (time_cost, memory_kib))
    return raw


def argon2_b64(raw):
    """Argon2's own encoding of the tag: standard base64 without padding."""
    return base64.b64encode(raw).rstrip(b"=")


# ---------------------------------------------------------------------------------------------
# SCRAM (RFC 5802 section 3; SHA-256 as in RFC 7677 / WAMP-SCRAM)
# ---------------------------------------------------------------------------------------------

def scram_salted_password(kdf, password, salt_b64, iterations, memory=None):
    """SaltedPassword.

    * ``pbkdf2``: RFC 5802 ``Hi(password, salt, i)`` == PBKDF2-HMAC-SHA256 with dkLen = 32 over the
      base64-DECODED salt (RFC 5802 5.1: "s: base64 encoded salt").
    * ``argon2id-13``: Argon2id v1.3, t=iterations, m=memory KiB, p=1, 32 bytes over the base64-decoded
      salt; WAMP-SCRAM as deployed (autobahn ``derive_scram_credential`` and its committed test vectors,
      Crossbar.io) uses Argon2's *encoded* tag (unpadded base64 text) as the HMAC key - that encoding is
      the wire contract and is taken as given.
    """
    salt = base64.b64decode(salt_b64)
    if kdf == "pbkdf2":
        return pbkdf2(password, salt, iterations, 32, "sha256")
    if kdf == "argon2id-13":
        return argon2_b64(argon2id_raw(password, salt, iterations, memory, 32))
    raise RefError("unknown kdf %r" % (kdf,))


def scram_auth_message(authid, client_nonce, server_nonce, salt_b64, iterations, channel_binding=""):
    """AuthMessage := client-first-message-bare "," server-first-message "," client-final-message-without-proof
    in the layout WAMP-SCRAM puts on the wire (layout taken as given, it is the contract with the router)."""
    return ("n=%s,r=%s,r=%s,s=%s,i=%d,c=%s,r=%s" % (authid, client_nonce, server_nonce, salt_b64, iterations,
                                                     channel_binding, server_nonce)).encode("ascii")


class ScramKeys:
    def __init__(self, salted_password, hashname="sha256"):
        self.hashname = hashname
        self.salted_password = salted_password
        self.client_key = hmac_digest(salted_password, b"Client Key", hashname)
        self.stored_key = hashlib.new(hashname, self.client_key).digest()
        self.server_key = hmac_digest(salted_password, b"Server Key", hashname)

    def client_signature(self, auth_message):
        return hmac_digest(self.stored_key, auth_message, self.hashname)

    def client_proof(self, auth_message):
        return xor(self.client_key, self.client_signature(auth_message))

    def server_signature(self, auth_message):
        return hmac_digest(self.server_key, auth_message, self.hashname)


def scram_server_verify(stored_key, auth_message, client_proof, hashname="sha256"):
    """What a standards-conforming SCRAM server does with a ClientProof (RFC 5802 section 3): it only knows
    StoredKey; ClientKey' = ClientProof XOR HMAC(StoredKey, AuthMessage); accept iff H(ClientKey') == StoredKey."""
    if len(client_proof) != len(stored_key):
        return False
    client_signature = hmac_digest(stored_key, auth_message, hashname)
    recovered = xor(client_proof, client_signature)
    return hashlib.new(hashname, recovered).digest() == stored_key


# ---------------------------------------------------------------------------------------------
# base64 TEXT of a SCRAM salt (RFC 4648 section 4), written out: the same octets have several spellings
# ---------------------------------------------------------------------------------------------

B64_ALPHABET = "ABCDEFGHIJKLMNOPQRSTUVWXYZabcdefghijklmnopqrstuvwxyz0123456789+/"


def b64_encode_canonical(octets):
    """RFC 4648 section 4 written out (canonical: no line breaks, zero pad bits, '=' padding)."""
    out = []
    for i in range(0, len(octets), 3):
        chunk = octets[i:i + 3]
        n = int.from_bytes(chunk + b"\x00" * (3 - len(chunk)), "big")
        chars = [B64_ALPHABET[(n >> s) & 63] for s in (18, 12, 6, 0)]
        if len(chunk) < 3:
            chars[len(chunk) + 1:] = "=" * (3 - len(chunk))
        out.append("".join(chars))
    return "".join(out)


def b64_decode_lenient(text):
    """The octets a lenient (RFC 2045 style) decoder reads from a base64 text: characters outside the alphabet
    (line breaks) are skipped, the unused low bits of the last sextet are ignored, padding must complete the
    last quantum.  Returns None when the text is not decodable that way."""
    sextets, pad = [], 0
    for ch in text:
        if ch == "=":
            pad += 1
        elif ch in B64_ALPHABET:
            if pad:
                return None
            sextets.append(B64_ALPHABET.index(ch))
    rem = len(sextets) % 4
    if rem == 1 or pad != (4 - rem) % 4:
        return None
    bits = 0
    for s in sextets:
        bits = (bits << 6) | s
    nbits = 6 * len(sextets)
    drop = nbits % 8
    return (bits >> drop).to_bytes((nbits - drop) // 8, "big")


def b64_unused_bits(text):
    """(index of the last alphabet character of ``text``, number of its low bits that carry no data) - 0, 2 or 4."""
    idx = [i for i, ch in enumerate(text) if ch in B64_ALPHABET]
    if not idx:
        return None, 0
    return idx[-1], (6 * len(idx)) % 8


def scram_salted_password_octets(kdf, password, salt_octets, iterations, memory=None):
    """SaltedPassword from the salt OCTETS (no base64 decoder involved; see scram_salted_password)."""
    if kdf == "pbkdf2":
        return pbkdf2(password, salt_octets, iterations, 32, "sha256")
    if kdf == "argon2id-13":
        return argon2_b64(argon2id_raw(password, salt_octets, iterations, memory, 32))
    raise RefError("unknown kdf %r" % (kdf,))


# ---------------------------------------------------------------------------------------------
# Ed25519 / WAMP-cryptosign
# ---------------------------------------------------------------------------------------------

def ed25519_public_from_seed(seed):
    from cryptography.hazmat.primitives import serialization
    from cryptography.hazmat.primitives.asymmetric.ed25519 import Ed25519PrivateKey

    pk = Ed25519PrivateKey.from_private_bytes(seed).public_key()
    return pk.public_bytes(serialization.Encoding.Raw, serialization.PublicFormat.Raw)


def ed25519_verify(public_key, signature, message):
    from cryptography.exceptions import InvalidSignature
    from cryptography.hazmat.primitives.asymmetric.ed25519 import Ed25519PublicKey

    try:
        Ed25519PublicKey.from_public_bytes(public_key).verify(signature, message)
    except InvalidSignature:
        return False
    except ValueError:
        return False
    return True


def ed25519_sign(seed, message):
    from cryptography.hazmat.primitives.asymmetric.ed25519 import Ed25519PrivateKey

    return Ed25519PrivateKey.from_private_bytes(seed).sign(message)


def cryptosign_message(challenge_raw, channel_id=None):
    """The octets a WAMP-cryptosign client signs: the 32 byte challenge, XORed with the 32 byte TLS channel id
    when channel binding ``tls-unique`` is in use."""
    if channel_id is None:
        return challenge_raw
    return xor(challenge_raw, channel_id)


def cryptosign_split_reply(reply_hex):
    """AUTHENTICATE.signature = hex(signature, 64 octets) || hex(signed message, 32 octets)."""
    if not isinstance(reply_hex, str) or len(reply_hex) != 192:
        return None
    try:
        raw = bytes.fromhex(reply_hex)
    except ValueError:
        return None
    return raw[:64], raw[64:]


# ---------------------------------------------------------------------------------------------
# published vectors
# ---------------------------------------------------------------------------------------------

RFC6238_SECRET = b"12345678901234567890"
RFC6238_SHA1 = [   # (unix time, 8 digit TOTP)
    (59, "94287082"), (1111111109, "07081804"), (1111111111, "14050471"),
    (1234567890, "89005924"), (2000000000, "69279037"), (20000000000, "65353130"),
]
RFC4226_HOTP = ["755224", "287082", "359152", "969429", "338314", "254676", "287922", "162583", "399871", "520489"]

RFC6070 = [  # PBKDF2-HMAC-SHA1: P, S, c, dkLen, DK
    (b"password", b"salt", 1, 20, "0c60c80f961f0e71f3a9b524af6012062fe037a6"),
    (b"password", b"salt", 2, 20, "ea6c014dc72d6f8ccd1ed92ace1d41f0d8de8957"),
    (b"password", b"salt", 4096, 20, "4b007901b765489abead49d926f721d065a429c1"),
    (b"passwordPASSWORDpassword", b"saltSALTsaltSALTsaltSALTsaltSALTsalt", 4096, 25,
     "3d2eec4fe41c849b80c8d83662c0e44a8b291a964cf2f07038"),
    (b"pass\x00word", b"sa\x00lt", 4096, 16, "56fa6aa75548099dcc37d7f03425e0c3"),
]
RFC7914_PBKDF2_SHA256 = [
    (b"passwd", b"salt", 1, 64,
     "55ac046e56e3089fec1691c22544b605f94185216dde0465e68b9d57c20dacbc"
     "49ca9cccf179b645991664b39d77ef317c71b845b1e30bd509112041d3a19783"),
]
RFC7677 = {   # SCRAM-SHA-256 example exchange
    "authid": "user", "password": "pencil", "client_nonce": "rOprNGfwEbeRWgbNEkqO",
    "server_nonce": "rOprNGfwEbeRWgbNEkqO%hvYDpWUa2RaTCAfuxFIlj)hNlF$k0", "salt": "W22ZaJ0SNY7soEsUEjb6gQ==",
    "iterations": 4096, "channel_binding": "biws",
    "proof": "dHzbZapWIk4jUhN+Ute9ytag9zjfMHgsqmmiz7AndVQ=",
    "server_signature": "6rriTRBi23WpRR/wtup+mMhUZUn/dB5nLTJRsjl95G4=",
}
RFC5802 = {   # SCRAM-SHA-1 example exchange
    "authid": "user", "password": "pencil", "client_nonce": "fyko+d2lbbFgONRv9qkxdawL",
    "server_nonce": "fyko+d2lbbFgONRv9qkxdawL3rfcNHYJY1ZVvWVs7j", "salt": "QSXCR+Q6sek8bf92", "iterations": 4096,
    "channel_binding": "biws", "proof": "v0X8v3Bz2T0CJGbJQyF0X+HI4Ts=", "server_signature": "rmF9pqV8S7suAoZWja4dJRkFsKQ=",
}
RFC8032 = [  # seed, public key, message, signature
    ("9d61b19deffd5a60ba844af492ec2cc44449c5697b326919703bac031cae7f60",
     "d75a980182b10ab7d54bfed3c964073a0ee172f3daa62325af021a68f707511a", "",
     "e5564300c360ac729086e2cc806e828a84877f1eb8e5d974d873e06522490155"
     "5fb8821590a33bacc61e39701cf9b46bd25bf5f0595bbe24655141438e7a100b"),
    ("4ccd089b28ff96da9db6c346ec114e0f5b8a319f35aba624da8cf6ed4fb8a6fb",
     "3d4017c3e843895a92b70aa74d1b7ebc9c982ccf2ec4968cc0cd55f12af4660c", "72",
     "92a009a9f0d4cab8720e820b5f642540a2b27b5416503f8fb3762223ebdb69da"
     "085ac1e43e15996e458f3613d0f11d8c387b2eaeb4302aeeb00d291612bb0c00"),
    ("c5aa8df43f9f837bedb7442f31dcb7b166d38535076f094b85ce3a2e0b4458f7",
     "fc51cd8e6218a1a38da47ed00230f0580816ed13ba3303ac5deb911548908025", "af82",
     "6291d657deec24024827e69c3abe01a30ce548a284743a445e3680d7db5ac3ac"
     "18ff9b538d16f290ae67f760984dc6594a7c15e9716ed28dc027beceea1ec40a"),
]
# `echo -n p4ssw0rd | argon2 1234567890abcdef -id -t 32 -m 9 -p 1 -l 32` (committed in the repository's tests)
ARGON2_CLI = (b"p4ssw0rd", b"1234567890abcdef", 32, 512, "ee4a8acf9d5958354fb79a95ae20692d05e42591ba49fae85eb6700e8b0ed293")


def _expect(what, got, want):
    if got != want:
        raise RefError("reference self-check failed: %s: got %r want %r" % (what, got, want))


def selfcheck():
    """Pin every reference primitive to published vectors.  Returns the number of vectors checked."""
    n = 0
    # HMAC: RFC 2202 (SHA-1), RFC 4231 (SHA-256) incl. key longer than the block
    for hn, key, msg, want in [
        ("sha1", b"\x0b" * 20, b"Hi There", "b617318655057264e28bc0b6fb378c8ef146be00"),
        ("sha1", b"Jefe", b"what do ya want for nothing?", "effcdf6ae5eb2fa2d27416d5f184df9c259a7c79"),
        ("sha256", b"\x0b" * 20, b"Hi There", "b0344c61d8db38535ca8afceaf0bf12b881dc200c9833da726e9376c2e32cff7"),
        ("sha256", b"Jefe", b"what do ya want for nothing?",
         "5bdcc146bf60754e6a042426089575c75a003f089d2739839dec58b964ec3843"),
        ("sha256", b"\xaa" * 131, b"Test Using Larger Than Block-Size Key - Hash Key First",
         "60e431591ee0b67f0d8a26aacbf5b77f8e0bc6213728c5140546040f0ee37f54"),
    ]:
        _expect("HMAC-%s" % hn, hmac_digest(key, msg, hn).hex(), want)
        n += 1
    # the hand-written HMAC against a third implementation (cryptography's)
    try:
        from cryptography.hazmat.primitives import hashes
        from cryptography.hazmat.primitives import hmac as chmac

        for key, msg in [(b"", b""), (b"k" * 64, b"m"), (b"k" * 65, b"m" * 200), (bytes(range(256)), bytes(range(255, -1, -1)))]:
            c = chmac.HMAC(key, hashes.SHA256())
            c.update(msg)
            _expect("HMAC vs cryptography", hmac_digest(key, msg, "sha256"), c.finalize())
            n += 1
    except ImportError:
        pass
    # PBKDF2
    for p, s, c, l, want in RFC6070:
        _expect("RFC6070 hashlib", pbkdf2(p, s, c, l, "sha1").hex(), want)
        if c <= 2:
            _expect("RFC6070 pure", pbkdf2_py(p, s, c, l, "sha1").hex(), want)
        n += 1
    for p, s, c, l, want in RFC7914_PBKDF2_SHA256:
        _expect("RFC7914 hashlib", pbkdf2(p, s, c, l, "sha256").hex(), want)
        _expect("RFC7914 pure", pbkdf2_py(p, s, c, l, "sha256").hex(), want)
        n += 1
    for p, s, c, l in [(b"", b"", 1, 16), (b"x" * 100, b"y" * 70, 3, 64), ("päß".encode(), b"\x00\xff", 2, 33)]:
        _expect("pbkdf2 pure vs hashlib", pbkdf2_py(p, s, c, l), pbkdf2(p, s, c, l))
        n += 1
    # HOTP / TOTP
    for i, want in enumerate(RFC4226_HOTP):
        _expect("RFC4226 HOTP %d" % i, hotp(RFC6238_SECRET, i), want)
        n += 1
    for t, want in RFC6238_SHA1:
        _expect("RFC6238 TOTP %d" % t, totp(RFC6238_SECRET, t, digits=8), want)
        _expect("RFC6238 TOTP %d/6" % t, totp(RFC6238_SECRET, t, digits=6), want[-6:])
        n += 1
    # SCRAM: RFC 7677 (SHA-256) and RFC 5802 (SHA-1) example exchanges, client and server side
    for vec, hn in ((RFC7677, "sha256"), (RFC5802, "sha1")):
        salted = pbkdf2(vec["password"].encode(), base64.b64decode(vec["salt"]), vec["iterations"],
                        hashlib.new(hn).digest_size, hn)
        am = scram_auth_message(vec["authid"], vec["client_nonce"], vec["server_nonce"], vec["salt"],
                                vec["iterations"], vec["channel_binding"])
        keys = ScramKeys(salted, hn)
        _expect("SCRAM-%s proof" % hn, base64.b64encode(keys.client_proof(am)).decode(), vec["proof"])
        _expect("SCRAM-%s server signature" % hn, base64.b64encode(keys.server_signature(am)).decode(),
                vec["server_signature"])
        _expect("SCRAM-%s server verify" % hn,
                scram_server_verify(keys.stored_key, am, base64.b64decode(vec["proof"]), hn), True)
        bad = bytearray(base64.b64decode(vec["proof"]))
        bad[0] ^= 1
        _expect("SCRAM-%s server verify (altered)" % hn, scram_server_verify(keys.stored_key, am, bytes(bad), hn), False)
        n += 1
    _expect("scram_salted_password(pbkdf2) == RFC 7677", ScramKeys(scram_salted_password(
        "pbkdf2", b"pencil", RFC7677["salt"], 4096)).client_proof(scram_auth_message(
            "user", RFC7677["client_nonce"], RFC7677["server_nonce"], RFC7677["salt"], 4096, "biws")),
        base64.b64decode(RFC7677["proof"]))
    n += 1
    # Ed25519
    for seed, pub, msg, sig in RFC8032:
        seed, pub, msg, sig = (bytes.fromhex(x) for x in (seed, pub, msg, sig))
        _expect("RFC8032 public key", ed25519_public_from_seed(seed), pub)
        _expect("RFC8032 verify", ed25519_verify(pub, sig, msg), True)
        _expect("RFC8032 sign", ed25519_sign(seed, msg), sig)
        bad = bytearray(sig)
        bad[5] ^= 0x10
        _expect("RFC8032 verify altered", ed25519_verify(pub, bytes(bad), msg), False)
        _expect("RFC8032 verify other message", ed25519_verify(pub, sig, msg + b"x"), False)
        n += 1
    # Argon2id: command line vector; argon2id_raw() itself cross-checks libsodium for the 16 byte salt
    p, s, t, m, want = ARGON2_CLI
    _expect("Argon2id CLI vector", argon2id_raw(p, s, t, m).hex(), want)
    _expect("Argon2 encoding", argon2_b64(b"\x00" * 32), b"A" * 43)
    n += 1
    # xor
    _expect("xor", xor(b"\x0f\xf0\xaa", b"\xff\xff\x55"), b"\xf0\x0f\xff")
    n += 1
    # base64 text (RFC 4648 section 10 vectors; spellings of the same octets)
    for raw, want in [(b"", ""), (b"f", "Zg=="), (b"fo", "Zm8="), (b"foo", "Zm9v"), (b"foob", "Zm9vYg=="),
                      (b"fooba", "Zm9vYmE="), (b"foobar", "Zm9vYmFy")]:
        _expect("RFC4648 encode", b64_encode_canonical(raw), want)
        _expect("RFC4648 decode", b64_decode_lenient(want), raw)
        n += 1
    for text, want in [("Zh==", b"f"), ("Zm9=", b"fo"), ("Zm9v\nYg==\n", b"foob"), ("Zm9vYg==\r\n", b"foob"), ("Zm9vYg=", None),
                       ("Zm9vY", None), ("Zg==Zg==", None)]:
        _expect("base64 spelling %r" % text, b64_decode_lenient(text), want)
    _expect("base64 unused bits", [b64_unused_bits(t) for t in ("Zg==", "Zm8=\n", "Zm9v")], [(1, 4), (2, 2), (3, 0)])
    _expect("scram_salted_password_octets", scram_salted_password_octets("pbkdf2", b"pencil", base64.b64decode(RFC7677["salt"]), 4096),
            scram_salted_password("pbkdf2", b"pencil", RFC7677["salt"], 4096))
    n += 1
    return n


if __name__ == "__main__":
    print("vectors checked:", selfcheck())
