"""Independent RFC 3629 reference (Unicode 15 ch.3 Table 3-7: well-formed UTF-8 byte sequences).

``judge(data)`` returns ``(valid, ends_on_code_point, first_bad_index)`` for a whole byte
string; ``first_bad_index`` is the index of the first byte that makes the string not a
prefix of any well-formed string (None when every byte is acceptable so far).

Written from the table, not from the DFA under test; cross-checked against CPython's strict
incremental decoder in ``selfcheck``.
"""

import codecs

# (first byte range) -> list of ranges for the following bytes
_TABLE = [
    ((0x00, 0x7F), []),
    ((0xC2, 0xDF), [(0x80, 0xBF)]),
    ((0xE0, 0xE0), [(0xA0, 0xBF), (0x80, 0xBF)]),
    ((0xE1, 0xEC), [(0x80, 0xBF), (0x80, 0xBF)]),
    ((0xED, 0xED), [(0x80, 0x9F), (0x80, 0xBF)]),
    ((0xEE, 0xEF), [(0x80, 0xBF), (0x80, 0xBF)]),
    ((0xF0, 0xF0), [(0x90, 0xBF), (0x80, 0xBF), (0x80, 0xBF)]),
    ((0xF1, 0xF3), [(0x80, 0xBF), (0x80, 0xBF), (0x80, 0xBF)]),
    ((0xF4, 0xF4), [(0x80, 0x8F), (0x80, 0xBF), (0x80, 0xBF)]),
]


def _tail_for(b):
    for (lo, hi), tail in _TABLE:
        if lo <= b <= hi:
            return tail
    return None


def judge(data):
    """-> (valid, ends_on_code_point, first_bad_index or None)"""
    pending = []          # remaining ranges of the sequence in progress
    for i, b in enumerate(data):
        if pending:
            lo, hi = pending[0]
            if not (lo <= b <= hi):
                return (False, False, i)
            pending = pending[1:]
        else:
            tail = _tail_for(b)
            if tail is None:
                return (False, False, i)
            pending = list(tail)
    return (True, not pending, None)


_COMPLETIONS = [bytes(t) for t in (
    [], [0x80], [0x90], [0xA0], [0xBF], [0x8F], [0x9F],
    [0x80, 0x80], [0x90, 0x80], [0xA0, 0x80], [0x8F, 0x80], [0x9F, 0x80], [0xBF, 0xBF],
    [0x80, 0x80, 0x80], [0x90, 0x80, 0x80], [0x8F, 0x80, 0x80], [0xBF, 0xBF, 0xBF])]


def cpython_accepts_prefix(data):
    """Second, independent reference for the accept/reject bit: is ``data`` a prefix of some string that
    CPython's strict decoder accepts?  (CPython's *incremental* decoder defers some errors, so the whole
    -string decoder is used with every possible shape of completion.)"""
    data = bytes(data)
    for c in _COMPLETIONS:
        try:
            (data + c).decode("utf-8")
            return True
        except UnicodeDecodeError:
            pass
    return False


def cpython_first_bad(data):
    """Index of first offending byte per CPython (start of the undecodable sequence may differ from
    the RFC position, so only used for the accept/reject bit and complete-ness)."""
    try:
        bytes(data).decode("utf-8")
        return None
    except UnicodeDecodeError as e:
        return e.start


def selfcheck():
    """The two references must agree on accept/reject for all strings of length <= 2 and a
    structured corpus of longer ones."""
    n = 0
    for a in range(256):
        for tail in ([], [0x80], [0xBF], [0x9F], [0xA0], [0x8F], [0x90], [0x41], [0xC2]):
            for tail2 in ([], [0x80], [0xBF], [0x7F], [0xC0]):
                s = bytes([a] + tail + tail2)
                v, ends, bad = judge(s)
                assert v == cpython_accepts_prefix(s), (s, v)
                if v and ends:
                    s.decode("utf-8")
                n += 1
    # every scalar value boundary
    for cp in (0, 0x7F, 0x80, 0x7FF, 0x800, 0xFFFF, 0x10000, 0x10FFFF, 0xD7FF, 0xE000):
        s = chr(cp).encode("utf-8")
        assert judge(s) == (True, True, None)
        for k in range(1, len(s)):
            assert judge(s[:k]) == (True, False, None)
    for bad in (b"\xed\xa0\x80", b"\xf4\x90\x80\x80", b"\xc0\x80", b"\xe0\x80\x80", b"\xf0\x80\x80\x80",
                b"\xf5\x80\x80\x80", b"\xff", b"\x80"):
        assert judge(bad)[0] is False and not cpython_accepts_prefix(bad)
    return n
