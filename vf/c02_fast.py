"""C02 helper: cheap endpoints in a shared world + one chronological boundary log per endpoint.

``vf.world`` builds a new transport *class* (zope ``@implementer``) for every endpoint, which costs
more than the WebSocket handshake itself; the exhaustive C02 workload opens ~10^6 connections, so
this module provides transports with exactly the same observable behaviour as the ones in
``vf/world.py`` (the method bodies are copies with ``ep`` turned into an attribute) built from ONE
class per framework.  Endpoints are the unmodified ``TxEndpoint`` / ``AioEndpoint`` classes of
``vf.world`` (feed / finish_close / peer_close / escaped handling are inherited).

Every endpoint additionally keeps ``ep.chron``: one list, in the order things happened, of
  ('app', kind, data...)   application callback of the protocol (vf.ws.RecorderMixin hook)
  ('write', bytes)         octets handed to the transport
  ('drop', 'lose'|'abort') transport close request by the protocol
  ('lost', reason-name)    connection-lost delivered to the protocol
  ('escaped', repr)        exception that reached the framework
so that "what happened after the failure" is decided on observed order, never inferred.
"""

import asyncio

import txaio

from . import rfc6455_ref as ref
from . import world as _world

_TX_TRANSPORT = None


def _tx_transport_class():
    global _TX_TRANSPORT
    if _TX_TRANSPORT is not None:
        return _TX_TRANSPORT
    from twisted.internet.interfaces import ITransport
    from zope.interface import implementer

    @implementer(ITransport)
    class FastTxTransport:
        disconnecting = False
        connected = True

        def __init__(self, ep, host, peer):
            self.ep = ep
            self._host = host
            self._peer = peer

        def write(self, data):
            ep = self.ep
            if not isinstance(data, (bytes, bytearray, memoryview)):
                raise TypeError("Data must be bytes")
            if ep.close_requested is not None:
                ep.writes_after_close_request += 1
            if ep.close_requested == "abort":
                ep.log("write-after-abort", len(data))
                return
            if ep._record_write(data):
                ep.out += data
                ep.all_out += data

        def writeSequence(self, seq):
            for d in seq:
                self.write(d)

        def loseConnection(self):
            ep = self.ep
            ep.log("loseConnection")
            if ep.close_requested is None and not ep.lost:
                ep.close_requested = "lose"
                ep.close_requested_at = ep.world.now()
                self.disconnecting = True

        def abortConnection(self):
            ep = self.ep
            ep.log("abortConnection")
            if ep.close_requested != "abort" and not ep.lost:
                ep.close_requested = "abort"
                ep.close_requested_at = ep.world.now()
                self.disconnecting = True
                del ep.out[:]

        def getPeer(self):
            return self._peer

        def getHost(self):
            return self._host

        def setTcpNoDelay(self, enabled):
            pass

        def setTcpKeepAlive(self, enabled):
            pass

        def registerProducer(self, producer, streaming):
            self.ep.log("registerProducer")

        def unregisterProducer(self):
            pass

        def pauseProducing(self):
            pass

        def resumeProducing(self):
            pass

        def stopProducing(self):
            pass

    _TX_TRANSPORT = FastTxTransport
    return FastTxTransport


class FastAioTransport(asyncio.Transport):
    def __init__(self, ep, host, peer):
        super().__init__(extra={"peername": peer, "sockname": host})
        self.ep = ep
        self._closing = False

    def write(self, data):
        ep = self.ep
        if not isinstance(data, (bytes, bytearray, memoryview)):
            raise TypeError("data argument must be a bytes-like object, not %r" % type(data).__name__)
        if ep.close_requested is not None:
            ep.writes_after_close_request += 1
            ep.log("write-after-close", len(data))
            if ep.lost:
                ep.writes_after_lost += 1
            return
        if ep._record_write(data):
            ep.out += data
            ep.all_out += data

    def writelines(self, seq):
        for d in seq:
            self.write(d)

    def can_write_eof(self):
        return True

    def write_eof(self):
        self.ep.log("write_eof")

    def is_closing(self):
        return self._closing

    def close(self):
        ep = self.ep
        ep.log("close")
        if ep.close_requested is None and not ep.lost:
            ep.close_requested = "lose"
            ep.close_requested_at = ep.world.now()
            self._closing = True

    def abort(self):
        ep = self.ep
        ep.log("abort")
        if ep.close_requested != "abort" and not ep.lost:
            ep.close_requested = "abort"
            ep.close_requested_at = ep.world.now()
            self._closing = True
            del ep.out[:]

    def pause_reading(self):
        pass

    def resume_reading(self):
        pass

    def set_write_buffer_limits(self, high=None, low=None):
        pass

    def get_write_buffer_size(self):
        return 0


_DROP_KINDS = {"loseConnection": "lose", "abortConnection": "abort", "close": "lose", "abort": "abort"}


class _ChronMixin:
    """Adds the chronological log without changing any behaviour of the vf.world endpoint."""

    def _chron_init(self):
        self.chron = []
        self.on_write = self._chron_write

    def _chron_write(self, ep, data):
        self.chron.append(("write", bytes(data)))

    def log(self, kind, payload=None):
        # EndpointBase.log keeps (vt, kind, payload); mirror the boundary-relevant kinds into chron
        self.events.append((self.world.now(), kind, payload))
        k = _DROP_KINDS.get(kind)
        if k is not None:
            self.chron.append(("drop", k))
        elif kind == "connection_lost":
            self.chron.append(("lost", payload))
        elif kind == "escaped":
            self.chron.append(("escaped", payload))

    def _app_hook(self, proto, kind, data):
        self.chron.append(("app", kind) + tuple(data))


def make_settle(world):
    """``world.settle`` with a constant-time early exit when nothing is runnable at the current virtual instant
    (the original scans every pending timer of the shared world on each call).  Same effect otherwise: it
    delegates to ``world.settle``."""
    slow = world.settle
    if world.fw == "tx":
        clock = world.clock

        def settle():
            calls = clock.calls              # twisted.internet.task.Clock keeps them sorted by time
            if calls and calls[0].getTime() <= clock.rightNow:
                slow()
        return settle
    loop = world.loop

    def settle():
        # AioWorld.settle without the scan: run the loop while a callback is ready or a timer is due now
        for _ in range(10000):
            sched = loop._scheduled          # heap ordered by deadline (cancelled handles included: harmless)
            if not loop._ready and not (sched and sched[0]._when <= loop._vtime):
                return
            loop.call_soon(loop.stop)
            loop.run_forever()
        raise RuntimeError("settle: livelock")
    return settle


class FastTxEndpoint(_ChronMixin, _world.TxEndpoint):
    def __init__(self, world, name, host, peer):
        _world.EndpointBase.__init__(self, world, name)
        self._chron_init()
        self.transport = _tx_transport_class()(self, host, peer)


class FastAioEndpoint(_ChronMixin, _world.AioEndpoint):
    def __init__(self, world, name, host, peer):
        _world.EndpointBase.__init__(self, world, name)
        self._chron_init()
        self.transport = FastAioTransport(self, host, peer)
        self._settle = getattr(world, "_c02_settle", None) or world.settle

    def feed(self, data):
        """copy of ``AioEndpoint.feed`` (vf/world.py) with the early-exit settle"""
        if self.lost or not data or self.close_requested is not None:
            return
        self.log("feed", len(data))
        try:
            self.proto.data_received(bytes(data))
        except Exception as e:
            self._escaped("data_received", e)
            self._lose_with(e)
        self._settle()

    def feed_burst(self, chunks):
        """copy of ``AioEndpoint.feed_burst`` (vf/world.py) with the early-exit settle: every chunk is handed to
        ``data_received()`` back to back inside ONE read event, the loop runs only afterwards (the adapter's consumer
        callback finds several chunks queued).  Returns the number of chunks handed over."""
        n = 0
        for data in chunks:
            if self.lost or self.close_requested is not None:
                break
            if not data:
                continue
            self.log("feed", len(data))
            try:
                self.proto.data_received(bytes(data))
                n += 1
            except Exception as e:
                self._escaped("data_received", e)
                self._lose_with(e)
                break
        self._settle()
        return n


_ADDRS = None


def attach(world, factory, name):
    """Same as ``world.attach`` (vf/world.py) with the cheap endpoint classes; the endpoint is NOT
    appended to ``world.endpoints`` (a worker opens ~10^5 of them)."""
    global _ADDRS
    if world.fw == "tx":
        if _ADDRS is None:
            from twisted.internet.address import IPv4Address
            _ADDRS = (IPv4Address("TCP", "127.0.0.1", 9000), IPv4Address("TCP", "127.0.0.1", 50000))
        ep = FastTxEndpoint(world, name, _ADDRS[0], _ADDRS[1])
        proto = factory.buildProtocol(ep.transport.getPeer())
        ep.proto = proto
        proto.__dict__["vf_on_app"] = ep._app_hook
        try:
            proto.makeConnection(ep.transport)
        except Exception as e:
            ep._escaped("connectionMade", e)
        return ep
    ep = FastAioEndpoint(world, name, ("127.0.0.1", 9000), ("127.0.0.1", 50000))
    proto = factory()
    ep.proto = proto
    proto.__dict__["vf_on_app"] = ep._app_hook
    try:
        proto.connection_made(ep.transport)
    except Exception as e:
        ep._escaped("connection_made", e)
    (getattr(world, "_c02_settle", None) or world.settle)()
    return ep


_REQ_CACHE = {}


def open_server(ws, factory, extensions=None):
    """One real server endpoint after a completed opening handshake (the harness is the client)."""
    s = attach(ws.world, factory, "server")
    k = ("req", extensions)
    if k not in _REQ_CACHE:
        _REQ_CACHE[k] = ref.client_request(extensions=extensions)
    request, key = _REQ_CACHE[k]
    s.feed(request)
    (getattr(ws.world, "_c02_settle", None) or ws.world.settle)()
    out = s.take_output()
    return s, out, key


def open_client(ws, factory, extensions=None):
    """One real client endpoint after a completed opening handshake (the harness is the server)."""
    c = attach(ws.world, factory, "client")
    (getattr(ws.world, "_c02_settle", None) or ws.world.settle)()
    req = c.take_output()
    key = None
    parsed = ref.parse_http_head(req)
    if parsed:
        key = (parsed[1].get("sec-websocket-key") or [None])[0]
    if key:
        c.feed(ref.server_response(key, extensions=extensions))
        (getattr(ws.world, "_c02_settle", None) or ws.world.settle)()
    return c, req, key


def flush_world(ws, dt=3600.0):
    """Fire every timer the finished cases left behind (close-handshake timeouts etc.) and forget
    recorded framework escapes of finished cases."""
    ws.world.advance(dt)
    del ws.world.escaped[:]
    del ws.world.endpoints[:]
