"""C18 engine: a CALLEE session and a CALLER session (real ApplicationSessions behind real client transports,
via vf.wamp_harness.RouterPeer, possibly with different transports/serializers) joined by a forwarding stub that
plays the router: CALL -> INVOCATION, ERROR(invocation) -> ERROR(call).  The stub moves plain WAMP lists; what it
sees is what was on the wire.  No verdicts in here - the check module holds the oracle."""

import logging

import txaio

from . import c18_codec as C
from . import c18_lib as L
from .wamp_harness import Outcome, RouterPeer
from .world import make_world

logging.getLogger().addHandler(logging.NullHandler())   # keep stdlib "last resort" handler quiet (aio)

CALL, RESULT, INVOCATION, YIELD, ERROR, REGISTER, REGISTERED = 48, 50, 68, 70, 8, 64, 65
PROC_PLAIN = "com.c18.proc"
PROC_NATIVE = "com.c18.native"
PROC_FOREIGN = "com.c18.foreign"


def session_class():
    if txaio.using_twisted:
        from autobahn.twisted.wamp import ApplicationSession
    else:
        from autobahn.asyncio.wamp import ApplicationSession

    class Sess(ApplicationSession):
        c18_ue_raises = False

        def __init__(self, *a, **k):
            ApplicationSession.__init__(self, *a, **k)
            self.user_errors = []

        def onUserError(self, fail, msg):
            self.user_errors.append(str(msg)[:120])
            if self.c18_ue_raises:
                raise RuntimeError("onUserError override is buggy")

    return Sess


def build_classes(class_specs, env):
    """class_specs: [{"kind", "raising_with", "base": idx|None, "deco": uri|None, "fixed_uri": uri|None}] ->
    list of classes, created and decorated in index order (as a module body would)."""
    out = []
    for i, cs in enumerate(class_specs):
        base = out[cs["base"]] if cs.get("base") is not None else None
        cls = L.make_class(cs["kind"], env, base=base, fixed_uri=cs.get("fixed_uri"),
                           raising_with=cs.get("raising_with") or "RuntimeError", name="C18_%d_%s" % (i, cs["kind"]))
        if cs.get("deco"):
            cls = L.decorate(cls, cs["deco"])
        out.append(cls)
    return out


BUILTINS = {"ValueError": ValueError, "KeyError": KeyError, "RuntimeError": RuntimeError, "Exception": Exception,
            "ZeroDivisionError": ZeroDivisionError, "OSError": OSError, "TypeError": TypeError,
            "AssertionError": AssertionError, "LookupError": LookupError, "NotImplementedError": NotImplementedError}


def build_exception(src, classes, env):
    """src: {"what": "class", "cls": idx, "args": [...], "kwargs": {...}} | {"what": "app", "uri", ..} |
    {"what": "builtin", "name", "args"} | {"what": "typecheck", "args", "kwargs"} -> exception instance."""
    from autobahn.wamp.exception import ApplicationError, TypeCheckError

    args = L.dec(src.get("args", []))
    kwargs = L.dec(src.get("kwargs", {"$d": []}))
    what = src["what"]
    if what == "class":
        env["allow_ctor"] = True
        try:
            return classes[src["cls"]](*args, **kwargs)
        finally:
            env["allow_ctor"] = False
    if what == "app":
        return ApplicationError(src["uri"], *args, **kwargs)
    if what == "typecheck":
        return TypeCheckError(*args, **kwargs)
    if what == "builtin":
        return BUILTINS[src["name"]](*args)
    raise ValueError(what)


class Pair:
    def __init__(self, cfg):
        self.cfg = cfg
        self.world = make_world()
        cls = session_class()
        self.B = RouterPeer(lambda: cls(), transport=cfg["transport_callee"], serializer=cfg["ser_callee"], world=self.world)
        self.A = RouterPeer(lambda: cls(), transport=cfg["transport_caller"], serializer=cfg["ser_caller"], world=self.world)
        self.A.join(7001)
        self.B.join(7002)
        self.a = self.A.session
        self.b = self.B.session
        self.b.traceback_app = bool(cfg.get("traceback_app"))
        self.a.c18_ue_raises = self.b.c18_ue_raises = bool(cfg.get("ue_raises"))
        self.excs = {}          # call idx -> exception instance to raise
        self.pending = {}       # call idx -> endpoint future awaiting rejection
        self.invoked = []       # call idx in invocation order
        self.inv_to_call = {}   # invocation request id -> (call idx, CALL request id)
        self.outcomes = {}      # call idx -> Outcome
        self.call_req = {}      # call idx -> CALL request id
        self.wire_errors = {}   # call idx -> [ERROR lists seen from the callee]
        self.strays = []        # anything else the callee sent
        self.regs = {}
        self._ids = 1000
        self.torn = False
        self._register()
        # payload transparency: a codec at both sides (same keys) or at the caller only
        self.codec = cfg.get("codec")
        self.codecs = {}
        self.sealed = 0
        if self.codec:
            self.codecs["caller"] = C.install(self.a, self.codec, "caller")
            if self.codec["sides"] == "both":
                self.codecs["callee"] = C.install(self.b, self.codec, "callee")

    def next_id(self):
        self._ids += 1
        return self._ids

    def _call_args(self, m):
        """application args of a CALL the stub received (the caller's codec may have encoded them)"""
        if self.codec and C.is_encoded(m, 4):
            return C.open_payload(self.codec, m[2], m[3], m[4])[1]
        return m[4] if len(m) > 4 else None

    # -- callee set-up ----------------------------------------------------------------------------
    def _register(self):
        pair = self

        def plain(idx):
            pair.invoked.append(idx)
            act = pair.modes[idx]
            if act == "future":
                f = txaio.create_future()
                pair.pending[idx] = f
                return f
            raise pair.excs[idx]

        if txaio.using_twisted:
            from twisted.internet.defer import inlineCallbacks, succeed

            @inlineCallbacks
            def native(idx):
                pair.invoked.append(idx)
                yield succeed(None)
                raise pair.excs[idx]
        else:
            import asyncio

            async def native(idx):
                pair.invoked.append(idx)
                await asyncio.sleep(0)
                raise pair.excs[idx]

        self.modes = {}
        for proc, fn in ((PROC_PLAIN, plain), (PROC_NATIVE, native)):
            o = Outcome(self.b.register(fn, proc))
            m = [x for x in self.B.recv() if x[0] == REGISTER]
            rid = self.next_id()
            self.B.send([REGISTERED, m[-1][1], rid])
            assert o.results and o.results[0][0] == "ok", o.results
            self.regs[proc] = rid

    # -- health -----------------------------------------------------------------------------------
    def side_down(self, rp, sess):
        return bool(rp.ep.lost or rp.ep.close_requested or sess._session_id is None)

    def escaped(self):
        return [repr(e)[:300] for e in self.world.escaped] + [repr(e)[:300] for e in self.A.ep.escaped + self.B.ep.escaped]

    def teardown(self):
        if self.torn:
            return
        self.torn = True
        for rp in (self.A, self.B):
            try:
                rp.teardown()
            except Exception:
                pass
        self.A.close_world()

    # -- conversation -----------------------------------------------------------------------------
    def issue(self, idx, mode, exc):
        """The caller calls; the stub turns the CALL into an INVOCATION for the callee.  -> [(idx, ERROR list)] seen."""
        self.excs[idx] = exc
        self.modes[idx] = mode
        proc = PROC_NATIVE if mode == "native" else PROC_PLAIN
        self.outcomes[idx] = Outcome(self.a.call(proc, idx))
        calls = [x for x in self.A.recv() if x[0] == CALL]
        assert len(calls) == 1 and calls[0][3] == proc and self._call_args(calls[0]) == [idx], calls
        self.call_req[idx] = calls[0][1]
        inv = self.next_id()
        self.inv_to_call[inv] = idx
        self.B.send([INVOCATION, inv, self.regs[proc], {}, [idx]])
        return self.pump()

    def issue_foreign(self, idx):
        """The caller calls a procedure whose callee is not one of ours; -> CALL request id."""
        self.outcomes[idx] = Outcome(self.a.call(PROC_FOREIGN, idx))
        calls = [x for x in self.A.recv() if x[0] == CALL]
        assert len(calls) == 1 and calls[0][3] == PROC_FOREIGN, calls
        self.call_req[idx] = calls[0][1]
        return calls[0][1]

    def fire(self, idx):
        """Reject the pending endpoint future of call idx with its exception (raised for real, so it has a traceback)."""
        f = self.pending.pop(idx)
        try:
            raise self.excs[idx]
        except BaseException:
            fail = txaio.create_failure()
        txaio.reject(f, fail)
        return self.pump()

    def pump(self):
        out = []
        for m in self.B.recv():
            if isinstance(m, list) and m and m[0] == ERROR and len(m) >= 5 and m[2] in self.inv_to_call:
                idx = self.inv_to_call[m[2]]
                self.wire_errors.setdefault(idx, []).append(m)
                out.append((idx, m))
            else:
                self.strays.append(m)
        return out

    def forward_error(self, idx, uri, tail, details=None):
        """ERROR(call) to the caller."""
        self.A.send([ERROR, CALL, self.call_req[idx], dict(details or {}), uri] + list(tail))
        self.A.recv()

    def seal_foreign(self, uri, args, kwargs):
        """a foreign callee holding the same keys: -> (details, [payload]) or None when it has no key for the URI"""
        self.sealed += 1
        r = C.seal_payload(self.codec, uri, args, kwargs, self.sealed)
        return None if r is None else (r[0], [r[1]])


PROC_MID = "com.c18.mid"
PROC_BACKEND = "com.c18.backend"
PROC_BACKEND_NATIVE = "com.c18.backend_native"


class Chain:
    """FRONT caller -> MID callee whose endpoint calls the BACKEND callee and lets the error propagate; three real
    sessions on one world, the stub routes both hops (CALL->INVOCATION, ERROR(invocation)->ERROR(call))."""

    def __init__(self, cfg):
        self.cfg = cfg
        self.world = make_world()
        cls = session_class()
        self.peers = {}
        for name, sid in (("front", 7001), ("mid", 7002), ("backend", 7003)):
            rp = RouterPeer(lambda: cls(), transport=cfg["transport_" + name], serializer=cfg["ser_" + name], world=self.world)
            rp.join(sid)
            rp.session.c18_ue_raises = bool(cfg.get("ue_raises"))
            self.peers[name] = rp
        self.F, self.M, self.B = self.peers["front"], self.peers["mid"], self.peers["backend"]
        self.f, self.m, self.b = self.F.session, self.M.session, self.B.session
        self.m.traceback_app = bool(cfg.get("tb_mid"))
        self.b.traceback_app = bool(cfg.get("tb_backend"))
        self.excs, self.modes, self.pending = {}, {}, {}
        self.outcomes = {}
        self.front_req, self.mid_inv, self.mid_req, self.backend_inv = {}, {}, {}, {}
        self.strays = []
        self.regs = {}
        self._ids = 2000
        self.torn = False
        self._register()
        self.codec = cfg.get("codec")
        if self.codec:
            for name, rp in self.peers.items():
                C.install(rp.session, self.codec, name)

    def next_id(self):
        self._ids += 1
        return self._ids

    def _reg(self, rp, fn, proc):
        o = Outcome(rp.session.register(fn, proc))
        m = [x for x in rp.recv() if x[0] == REGISTER]
        rid = self.next_id()
        rp.send([REGISTERED, m[-1][1], rid])
        assert o.results and o.results[0][0] == "ok", o.results
        self.regs[proc] = rid

    def _register(self):
        ch = self

        def backend(idx):
            if ch.modes[idx] == "future":
                f = txaio.create_future()
                ch.pending[idx] = f
                return f
            raise ch.excs[idx]

        def mid_plain(idx, style):
            return ch.m.call(PROC_BACKEND_NATIVE if ch.modes[idx] == "native" else PROC_BACKEND, idx)

        if txaio.using_twisted:
            from twisted.internet.defer import inlineCallbacks, returnValue, succeed

            @inlineCallbacks
            def backend_native(idx):
                yield succeed(None)
                raise ch.excs[idx]

            @inlineCallbacks
            def mid_await(idx, style):
                res = yield ch.m.call(PROC_BACKEND_NATIVE if ch.modes[idx] == "native" else PROC_BACKEND, idx)
                returnValue(res)
        else:
            import asyncio

            async def backend_native(idx):
                await asyncio.sleep(0)
                raise ch.excs[idx]

            async def mid_await(idx, style):
                return await ch.m.call(PROC_BACKEND_NATIVE if ch.modes[idx] == "native" else PROC_BACKEND, idx)

        def mid(idx, style):
            return (mid_await if style == "await" else mid_plain)(idx, style)

        self._reg(self.B, backend, PROC_BACKEND)
        self._reg(self.B, backend_native, PROC_BACKEND_NATIVE)
        self._reg(self.M, mid, PROC_MID)

    def down(self, name):
        rp = self.peers[name]
        return bool(rp.ep.lost or rp.ep.close_requested or rp.session._session_id is None)

    def escaped(self):
        out = [repr(e)[:300] for e in self.world.escaped]
        for rp in self.peers.values():
            out += [repr(e)[:300] for e in rp.ep.escaped]
        return out

    def teardown(self):
        if self.torn:
            return
        self.torn = True
        for rp in self.peers.values():
            try:
                rp.teardown()
            except Exception:
                pass
        self.F.close_world()

    # -- conversation: every method returns the events the stub saw: [("backend-error"|"mid-error", idx, ERROR list)]
    def issue(self, idx, mode, style, exc):
        self.excs[idx] = exc
        self.modes[idx] = mode
        self.outcomes[idx] = Outcome(self.f.call(PROC_MID, idx, style))
        calls = [x for x in self.F.recv() if x[0] == CALL]
        assert len(calls) == 1 and calls[0][3] == PROC_MID, calls
        self.front_req[idx] = calls[0][1]
        inv = self.next_id()
        self.mid_inv[inv] = idx
        self.M.send([INVOCATION, inv, self.regs[PROC_MID], {}, [idx, style]])
        return self.pump()

    def fire(self, idx):
        f = self.pending.pop(idx)
        try:
            raise self.excs[idx]
        except BaseException:
            fail = txaio.create_failure()
        txaio.reject(f, fail)
        return self.pump()

    def pump(self):
        """Route what MID and BACKEND sent; ERRORs are returned to the monitor, which forwards them."""
        events = []
        progress = True
        while progress:
            progress = False
            for m in self.M.recv():
                progress = True
                if m[0] == CALL and m[3] in (PROC_BACKEND, PROC_BACKEND_NATIVE):
                    idx = (C.open_payload(self.codec, m[2], m[3], m[4])[1] if self.codec and C.is_encoded(m, 4) else m[4])[0]
                    self.mid_req[idx] = m[1]
                    inv = self.next_id()
                    self.backend_inv[inv] = idx
                    self.B.send([INVOCATION, inv, self.regs[m[3]], {}, [idx]])
                elif m[0] == ERROR and len(m) >= 5 and m[2] in self.mid_inv:
                    events.append(("mid-error", self.mid_inv[m[2]], m))
                else:
                    self.strays.append(("mid", m))
            for m in self.B.recv():
                progress = True
                if m[0] == ERROR and len(m) >= 5 and m[2] in self.backend_inv:
                    events.append(("backend-error", self.backend_inv[m[2]], m))
                else:
                    self.strays.append(("backend", m))
            if events:
                break
        return events

    def _enc_details(self, m):
        """a router forwards the payload-transparency attributes along with an opaque payload"""
        if self.codec and C.is_encoded(m, 5) and isinstance(m[3], dict):
            return {k: v for k, v in m[3].items() if k in ("enc_algo", "enc_serializer", "enc_key")}
        return {}

    def forward_to_mid(self, idx, m):
        self.M.send([ERROR, CALL, self.mid_req[idx], self._enc_details(m), m[4]] + list(m[5:]))
        return self.pump()

    def forward_to_front(self, idx, m):
        self.F.send([ERROR, CALL, self.front_req[idx], self._enc_details(m), m[4]] + list(m[5:]))
        self.F.recv()
