"""C06 engine: one WAMP session life (REAL ApplicationSession behind the REAL client transport)
driven by a scripted router, recorded as ONE ordered history and judged online by a small
session automaton that is written from the property statement, not from the code.

History entries (tuples, first element = tag):

    ("cb", name, ...)      user callback entered (connect challenge welcome join leave disconnect)
    ("obs", name)          observer registered with session.on(name, ..) invoked
    ("tx", NAME, msg)      WAMP message the client put on the wire (decoded at the wire, in write order)
    ("txclose", code)      WebSocket close frame written by the client
    ("rx", NAME)           WAMP message the scripted router delivered
    ("do", what)           local API action of the harness-as-user (leave / disconnect / issue requests)
    ("t", what, ...)       transport event injected by the harness (lose / finish)
    ("fut", kind, n, "ok"|"err", exc-name)   completion of a request future
    ("api-raise", kind, exc-name)            an API call raised synchronously
    ("usererror", exc-name, msg)             ApplicationSession.onUserError invoked
    ("step", i, name)      step marker

A *case* is JSON: {"transport", "ser", "modes": {callback: mode}, "steps": [[name, args..], ..], "sid"}.
"""

import struct

import txaio

from . import rfc6455_ref as ref
from .runner import h
from .wamp_harness import RouterPeer, WELCOME_ROLES

KINDS = ["call", "publish", "subscribe", "unsubscribe", "register", "unregister"]
POST_KINDS = KINDS + ["publish_plain", "publish_opts", "publish_noack", "call_opts", "subscribe_opts", "register_opts",
                      # one subscription id shared by several local handlers: first / middle / last handler unsubscribing
                      "unsubscribe_shared_first", "unsubscribe_shared_next", "unsubscribe_shared_last",
                      # decorated-object forms and a new join() on the dead transport
                      "subscribe_obj", "register_obj", "join"]
RANK = {"connect": 0, "join": 1, "leave": 2, "disconnect": 3}
NAMES = {1: "HELLO", 2: "WELCOME", 3: "ABORT", 4: "CHALLENGE", 5: "AUTHENTICATE", 6: "GOODBYE", 8: "ERROR",
         16: "PUBLISH", 17: "PUBLISHED", 32: "SUBSCRIBE", 33: "SUBSCRIBED", 34: "UNSUBSCRIBE", 35: "UNSUBSCRIBED",
         36: "EVENT", 48: "CALL", 49: "CANCEL", 50: "RESULT", 64: "REGISTER", 65: "REGISTERED", 66: "UNREGISTER",
         67: "UNREGISTERED", 68: "INVOCATION", 69: "INTERRUPT", 70: "YIELD"}

DEFAULT_MODES = {"onConnect": "ok", "onChallenge": "ok", "onWelcome": "ok", "onJoin": "ok", "onLeave": "ok",
                 "onDisconnect": "ok"}
# every deviation a case may select for one callback
MODE_CHOICES = {
    "onConnect": ["raise", "raise_nosuper"],      # raise after / instead of the default join()
    "onChallenge": ["raise"],
    "onWelcome": ["raise", "deny"],              # deny = return an error string
    "onJoin": ["raise", "leave", "leave_raise"],  # leave = the documented idiom "self.leave() inside onJoin"
    "onLeave": ["raise", "raise_nosuper", "nosuper", "leave_again"],
    "onDisconnect": ["raise"],                   # always after the default implementation ran
}
# onLeave modes in which the library's default onLeave (errback outstanding requests + disconnect) has run
DEFAULT_ONLEAVE_RAN = ("ok", "raise", "leave_again")

ILLEGAL_PRE = ["EVENT", "RESULT", "GOODBYE", "SUBSCRIBED", "INVOCATION", "ERROR", "PUBLISHED", "REGISTERED",
               "UNSUBSCRIBED", "UNREGISTERED", "INTERRUPT", "HELLO", "AUTHENTICATE", "CALL",
               "RESULT@pending", "SUBSCRIBED@pending", "ERROR@pending"]
ILLEGAL_POST = ["WELCOME", "CHALLENGE", "HELLO", "AUTHENTICATE", "ABORT"]


class UserBoom(Exception):
    """What a failing user callback raises."""


_SESSION_CLS = None


def session_class():
    """The framework's ApplicationSession, subclassed with recording / optionally failing callbacks.
    Plain functions only (work on Twisted and asyncio); they return or raise synchronously."""
    global _SESSION_CLS
    if _SESSION_CLS is not None:
        return _SESSION_CLS
    if txaio.using_twisted:
        from autobahn.twisted.wamp import ApplicationSession
    else:
        from autobahn.asyncio.wamp import ApplicationSession
    from autobahn.wamp.types import ComponentConfig

    class Sess(ApplicationSession):
        def __init__(self, ctx):
            ApplicationSession.__init__(self, ComponentConfig(realm="realm1"))
            self.ctx = ctx

        def onConnect(self):
            m = self.ctx.modes["onConnect"]
            self.ctx.H.append(("cb", "connect"))
            if m == "raise_nosuper":
                raise UserBoom("onConnect")
            r = ApplicationSession.onConnect(self)
            if m == "raise":
                raise UserBoom("onConnect")
            return r

        def onChallenge(self, challenge):
            self.ctx.H.append(("cb", "challenge"))
            if self.ctx.modes["onChallenge"] == "raise":
                raise UserBoom("onChallenge")
            return "signature"

        def onWelcome(self, msg):
            m = self.ctx.modes["onWelcome"]
            self.ctx.H.append(("cb", "welcome"))
            if m == "raise":
                raise UserBoom("onWelcome")
            if m == "deny":
                return "denied by onWelcome"
            return None

        def onJoin(self, details):
            m = self.ctx.modes["onJoin"]
            self.ctx.H.append(("cb", "join", details.session))
            if m in ("leave", "leave_raise"):
                self.leave()
            if m in ("raise", "leave_raise"):
                raise UserBoom("onJoin")

        def onLeave(self, details):
            m = self.ctx.modes["onLeave"]
            self.ctx.H.append(("cb", "leave", details.reason))
            if m == "raise_nosuper":
                raise UserBoom("onLeave")
            if m == "nosuper":
                return None
            if m == "leave_again":
                self.leave()
            r = ApplicationSession.onLeave(self, details)
            if m == "raise":
                raise UserBoom("onLeave")
            return r

        def onDisconnect(self):
            m = self.ctx.modes["onDisconnect"]
            self.ctx.H.append(("cb", "disconnect"))
            r = ApplicationSession.onDisconnect(self)
            if m == "raise":
                raise UserBoom("onDisconnect")
            return r

        def onUserError(self, fail, msg):
            self.ctx.H.append(("usererror", type(getattr(fail, "value", fail)).__name__, str(msg)[:60]))

    _SESSION_CLS = Sess
    return Sess


class RP(RouterPeer):
    """RouterPeer whose wire parser runs inside the transport's write hook, so that client messages
    enter the history at the moment they are written (exact interleaving with the callbacks)."""

    def __init__(self, ctx, *a, **kw):
        RouterPeer.__init__(self, *a, **kw)
        self.ctx = ctx

    def connect(self, complete_handshake=True):
        RouterPeer.connect(self, complete_handshake=False)
        self.complete_handshake()
        return self

    def complete_handshake(self):
        # the transport's own opening handshake was written before the hook exists and is consumed by
        # RouterPeer.complete_handshake via take_output(); everything later is parsed at write time
        self.ep.on_write = self._hook
        RouterPeer.complete_handshake(self)

    def _hook(self, ep, data):
        self.inbuf += data
        self._parse()

    def _parse(self):
        # same framing logic as RouterPeer._pull, minus settle()/take_output() (must not re-enter the loop)
        if self.kind == "websocket":
            frames, rest = ref.parse_frames(bytes(self.inbuf), allow_partial=True)
            self.inbuf = bytearray(rest)
            for f in frames:
                self.raw_frames.append((f.opcode, f.payload, f.masked))
                if f.opcode in (1, 2, 0):
                    if f.opcode != 0:
                        self.frag_msg = [f.opcode, []]
                    self.frag_msg[1].append(f.payload)
                    if f.fin:
                        op, chunks = self.frag_msg
                        self.frag_msg = None
                        self._on_wamp_payload(b"".join(chunks), op == 2)
                elif f.opcode == 8:
                    code = struct.unpack("!H", f.payload[:2])[0] if len(f.payload) >= 2 else None
                    self.ws_close_frames.append((code, f.payload[2:].decode("utf8", "replace")))
                    self.ctx.H.append(("txclose", code))
        else:
            while len(self.inbuf) >= 4:
                ftype = self.inbuf[0]
                ln = (self.inbuf[1] << 16) | (self.inbuf[2] << 8) | self.inbuf[3]
                if len(self.inbuf) < 4 + ln:
                    break
                payload = bytes(self.inbuf[4:4 + ln])
                del self.inbuf[:4 + ln]
                self.raw_frames.append((ftype, payload, None))
                if ftype == 0:
                    self._on_wamp_payload(payload, self.binary)

    def _on_wamp_payload(self, payload, is_binary):
        RouterPeer._on_wamp_payload(self, payload, is_binary)
        m = self.received[-1]
        name = NAMES.get(m[0], str(m[0])) if isinstance(m, list) and m else "UNDECODABLE"
        self.ctx.H.append(("tx", name, m))

    def _pull(self):
        self.world.settle()
        self.ep.take_output()     # already parsed by the hook


class FutRec:
    """Completion recorder of one request future; writes into the history."""

    def __init__(self, ctx, kind, n, fut, issued_phase, on_err=None, reissued=False):
        self.kind, self.n, self.issued_phase = kind, n, issued_phase
        self.reissued = reissued      # issued from inside the errback of another request
        self.fut = fut
        self.cancelled_local = False  # the application itself cancelled the Deferred / Future while it was outstanding
        self.results = []
        self.issued_at = len(ctx.H)
        H = ctx.H

        if txaio.using_twisted:
            def ok(v):
                self.results.append(("ok", v))
                H.append(("fut", kind, n, "ok", type(v).__name__))

            def err(f):
                self.results.append(("err", f.value))
                H.append(("fut", kind, n, "err", type(f.value).__name__))
                if on_err:
                    on_err(self)
            fut.addCallbacks(ok, err)
        else:
            def done(f):
                if f.cancelled():
                    self.results.append(("err", RuntimeError("cancelled")))
                    H.append(("fut", kind, n, "err", "cancelled"))
                    if on_err:
                        on_err(self)
                elif f.exception() is not None:
                    self.results.append(("err", f.exception()))
                    H.append(("fut", kind, n, "err", type(f.exception()).__name__))
                    if on_err:
                        on_err(self)
                else:
                    self.results.append(("ok", f.result()))
                    H.append(("fut", kind, n, "ok", type(f.result()).__name__))
            fut.add_done_callback(done)

    @property
    def done(self):
        return bool(self.results)


_DECORATED = None


def _decorated():
    """Classes with methods decorated for subscribe(obj) / register(obj) (two URIs each)."""
    global _DECORATED
    if _DECORATED is None:
        from autobahn import wamp

        class Subs:
            @wamp.subscribe("com.c06.obj.t1")
            def h1(self, *a, **k):
                pass

            @wamp.subscribe("com.c06.obj.t2")
            def h2(self, *a, **k):
                pass

        class Procs:
            @wamp.register("com.c06.obj.p1")
            def p1(self, *a, **k):
                return 1

            @wamp.register("com.c06.obj.p2")
            def p2(self, *a, **k):
                return 2

        _DECORATED = (Subs, Procs)
    return _DECORATED


def _is_future(x):
    if txaio.using_twisted:
        from twisted.internet.defer import Deferred
        return isinstance(x, Deferred)
    import asyncio
    return asyncio.isfuture(x)


class Life:
    """Executes one case and judges it.  ``R`` is the runner's Recorder."""

    def __init__(self, case, R):
        self.case = case
        self.R = R
        self.H = []
        self.modes = dict(DEFAULT_MODES)
        self.modes.update(case.get("modes") or {})
        self.kind = case.get("transport", "websocket")
        self.ser = case.get("ser", "json")
        self.sid = case.get("sid", 7001)
        self.rp = None
        # ---- the automaton (harness-side knowledge only)
        self.phase = "connected"      # connected challenged joined closing left aborted violated gone
        self.hello_seen = False
        self.joined_model = False     # True: WELCOME delivered in a handshake phase on an open transport and accepted
        self.ambiguous = False        # a router message was delivered while the client's transport was closing
        self.router_abort = False
        self.client_abort = False
        self.local_disconnect = False
        self.end_reason = None
        self.n_challenges = 0
        # ---- incremental monitors
        self.scanned = 0
        self.seen = {"cb": set(), "obs": set()}
        self.last_rank = {"cb": -1, "obs": -1}
        self.last_ev = {"cb": None, "obs": None}
        self.goodbyes = 0
        self.trigger = "connect"
        self.futs = []
        self.sub = None
        self.reg = None
        self.sub2 = None              # spares: what a re-issued unsubscribe / unregister acts on
        self.reg2 = None
        self.shared = []              # >= 2 handler subscriptions that share ONE subscription id (same topic subscribed repeatedly)
        self.checked = 0              # deciding observations made in this case
        self.nfut = 0
        self.leave_checked_after = False
        self.client_initiated = False  # the last completed GOODBYE exchange was started by this side
        self.sess_no = 1              # sessions on this transport (re-join after a completed GOODBYE / ABORT)
        self.sess_start = 0           # index into H where the current session began

    # ------------------------------------------------------------------ helpers
    def render(self, limit=120):
        out = []
        for e in self.H[-limit:]:
            if e[0] == "tx":
                m = e[2]
                out.append("tx %s %s" % (e[1], (m[:2] if e[1] == "HELLO" else m)))
            else:
                out.append(" ".join(str(x) for x in e))
        return out

    def v(self, key, what, **detail):
        d = {"modes": {k: v for k, v in self.modes.items() if v != "ok"}, "transport": self.kind,
             "steps": self.case.get("steps"), "history": self.render()}
        d.update(detail)
        self.R.violation("C06/" + key, what, d, self.case)

    def cancel_pattern(self):
        """Outstanding requests in issue order, '*' = cancelled by the application while outstanding."""
        return ",".join(f.kind + ("*" if f.cancelled_local else "") for f in self.futs)

    def tclosing(self):
        ep = self.rp.ep
        return bool(self.local_disconnect or ep.close_requested is not None or self.rp.ws_close_frames or ep.lost)

    def count_cb(self, stream, name):
        """connect / disconnect: per transport connection; join / leave: of the CURRENT session."""
        lo = self.sess_start if name in ("join", "leave") else 0
        return sum(1 for e in self.H[lo:] if e[0] == stream and e[1] == name)

    def _make_session(self):
        s = session_class()(self)
        H = self.H
        for ev in ("connect", "join", "ready", "leave", "disconnect"):
            s.on(ev, lambda *a, _ev=ev, **k: H.append(("obs", _ev)))
        return s

    @property
    def session(self):
        return self.rp.session

    # ------------------------------------------------------------------ incremental scan of the history
    def sync(self):
        self.rp._pull()
        R = self.R
        H = self.H
        while self.scanned < len(H):
            e = H[self.scanned]
            self.scanned += 1
            tag = e[0]
            if tag in ("cb", "obs") and e[1] in RANK:
                ev = e[1]
                R.count("order_checked")
                self.checked += 1
                if ev in self.seen[tag]:
                    self.v("twice/%s/%s/on-%s" % (tag, ev, self.trigger),
                           "%s '%s' happened a second time %s" % (
                               "callback" if tag == "cb" else "observer", ev,
                               "in the same session" if ev in ("join", "leave") and self.sess_no > 1 else "on the same transport connection"))
                elif RANK[ev] < self.last_rank[tag]:
                    self.v("order/%s/%s-after-%s" % (tag, ev, self.last_ev[tag]),
                           "%s '%s' after '%s' (required order: connect, join, leave, disconnect)" % (
                               tag, ev, self.last_ev[tag]))
                self.seen[tag].add(ev)
                if RANK[ev] >= self.last_rank[tag]:
                    self.last_rank[tag] = RANK[ev]
                    self.last_ev[tag] = ev
                R.seen("callbacks_seen", "%s:%s" % (tag, ev))
            elif tag == "tx":
                if e[1] == "HELLO":
                    self.hello_seen = True
                elif e[1] == "GOODBYE":
                    self.goodbyes += 1
                    R.count("goodbye_tx_seen")
                    if self.goodbyes > 1:
                        self.v("goodbye-twice/on-%s" % self.trigger,
                               "the client sent GOODBYE %d times in one session" % self.goodbyes)
                elif e[1] == "ABORT":
                    self.client_abort = True
            elif tag in ("rx", "do", "t"):
                self.trigger = "%s-%s" % (tag, e[1])
        # exceptions that reached the networking framework: NOT part of the statement (on asyncio a failing
        # onJoin surfaces as "Future exception was never retrieved" at GC time) - evidence only
        esc = list(self.rp.world.escaped)
        if esc:
            del self.rp.world.escaped[:]
            for name, x in esc:
                exc = getattr(x, "exc", x)
                R.count("escaped_to_framework_observed")
                R.seen("escaped_kinds", "%s/%s" % (getattr(x, "where", name).split(":")[0], type(exc).__name__))

    # ------------------------------------------------------------------ router side
    def may_send(self, name, ended_ok=False):
        ep = self.rp.ep
        dead = ("violated", "gone") if ended_ok else ("left", "aborted", "violated", "gone")
        ok = (not ep.lost) and self.hello_seen and self.phase not in dead
        if not ok:
            self.R.count("router_step_skipped")
        return ok

    def send(self, msg, name):
        if self.tclosing():
            self.ambiguous = True
            self.R.count("router_msg_into_closing_transport")
        self.H.append(("rx", name))
        self.rp.send(msg)
        self.sync()

    def do_challenge(self):
        if self.phase not in ("connected", "challenged") or not self.may_send("CHALLENGE"):
            return
        self.n_challenges += 1
        self.send([4, "ticket", {"round": self.n_challenges}], "CHALLENGE")
        if self.client_abort:
            self.phase = "aborted"
            self.end_reason = "client-abort"
        else:
            self.phase = "challenged"

    def do_welcome(self):
        if self.phase not in ("connected", "challenged") or not self.may_send("WELCOME"):
            return
        pre_tc = self.tclosing()
        n = len(self.H)
        self.send([2, self.sid, {"roles": WELCOME_ROLES, "realm": "realm1", "authid": "anon", "authrole": "anonymous"}],
                  "WELCOME")
        if self.client_abort:
            self.phase = "aborted"
            self.end_reason = "client-abort"
            if self.modes["onWelcome"] == "ok":
                self.ambiguous = True      # model and wire disagree: assert nothing that depends on 'joined'
            return
        if self.modes["onWelcome"] != "ok":
            # denied, but no ABORT on the wire (e.g. swallowed by a closing transport): nothing asserted on 'joined'
            self.ambiguous = True
            self.phase = "aborted"
            self.end_reason = "client-abort"
            return
        if not pre_tc:
            self.joined_model = True
        self.phase = "joined"
        self.R.count("welcome_delivered")
        if any(e[0] == "tx" and e[1] == "GOODBYE" for e in self.H[n:]):
            self.phase = "closing"

    def do_welcome_goodbye(self):
        """WELCOME and a router-initiated GOODBYE arriving in ONE read (TCP coalescing; a router that shuts
        down / kills the session right after admitting it).  A schedule of a legal conversation: the session
        is joined by the WELCOME and ended by the GOODBYE, to which exactly one GOODBYE must go out (the
        answer - or this side's own GOODBYE when onJoin called leave() first, then no answer)."""
        if self.phase not in ("connected", "challenged") or not self.may_send("WELCOME"):
            return
        pre_tc = self.tclosing()
        if pre_tc:
            self.ambiguous = True
            self.R.count("router_msg_into_closing_transport")
        g0 = self.goodbyes
        w = [2, self.sid, {"roles": WELCOME_ROLES, "realm": "realm1", "authid": "anon", "authrole": "anonymous"}]
        g = [6, {}, "wamp.close.system_shutdown"]
        self.H.append(("rx", "WELCOME+GOODBYE"))
        self.rp.send_raw(self.rp.encode(w) + self.rp.encode(g))
        self.sync()
        self.R.count("coalesced_welcome_goodbye")
        if self.client_abort or self.modes["onWelcome"] != "ok":
            # the client refused the WELCOME itself: the GOODBYE then hits a session that is not established
            if not self.client_abort or self.modes["onWelcome"] == "ok":
                self.ambiguous = True
            self.phase = "aborted"
            self.end_reason = "client-abort"
            return
        if not pre_tc:
            self.joined_model = True
        self.R.count("welcome_delivered")
        if not pre_tc and not self.ambiguous:
            self.checked += 1
            self.R.count("goodbye_answer_checked")
            sent = self.goodbyes - g0
            if sent == 0:
                self.v("goodbye-unanswered/coalesced-with-welcome",
                       "router GOODBYE arriving in the same read as WELCOME was not answered with GOODBYE "
                       "(transport close requested: %r)" % (self.rp.ep.close_requested,))
        self.phase = "left"
        self.end_reason = "goodbye"

    def do_abort(self):
        if self.phase not in ("connected", "challenged") or not self.may_send("ABORT"):
            return
        pre_tc = self.tclosing()
        self.send([3, {"message": "no"}, "wamp.error.no_such_realm"], "ABORT")
        self.router_abort = True
        self.phase = "aborted"
        self.end_reason = "router-abort"
        if not pre_tc and not self.ambiguous:
            self.R.count("leave_expected_checked")
            self.checked += 1
            if self.count_cb("cb", "leave") == 0:
                self.v("leave-missing/router-abort", "router ABORT before the session was established did not fire onLeave")
            self.check_pending_after_leave("router-abort")

    def do_rgoodbye(self, cross=0):
        """Router GOODBYE.  ``cross``: the router initiates closing on its own (system_shutdown) although the
        client's GOODBYE is already under way - crossing GOODBYEs; this side initiated, so it must not answer."""
        if self.phase not in ("joined", "closing") or not self.may_send("GOODBYE"):
            return
        initiated = self.phase == "closing"
        pre_tc = self.tclosing()
        pre_amb = self.ambiguous
        g0 = self.goodbyes
        reason = "wamp.close.goodbye_and_out" if (initiated and not cross) else "wamp.close.system_shutdown"
        if initiated and cross:
            self.R.count("goodbye_crossing")
        self.send([6, {}, reason], "GOODBYE")
        answered = self.goodbyes - g0
        if not pre_tc and not pre_amb and self.joined_model:
            self.checked += 1
            if initiated:
                self.R.count("goodbye_noanswer_checked")
                if answered:
                    self.v("goodbye-answered-although-initiated",
                           "the router's GOODBYE reply to our own GOODBYE was answered with another GOODBYE")
            else:
                self.R.count("goodbye_answer_checked")
                if not answered:
                    self.v("goodbye-unanswered", "router-initiated GOODBYE was not answered with GOODBYE")
            self.R.count("leave_expected_checked")
            if self.count_cb("cb", "leave") == 0:
                self.v("leave-missing/goodbye/%s" % ("client-initiated" if initiated else "router-initiated"),
                       "GOODBYE exchange completed for a joined session, onLeave not fired")
            self.check_pending_after_leave("goodbye")
        self.client_initiated = initiated
        self.phase = "left"
        self.end_reason = "goodbye"

    def check_pending_after_leave(self, why):
        """Right after 'leave', if the library's DEFAULT onLeave ran, nothing may be pending."""
        if self.leave_checked_after or self.count_cb("cb", "leave") == 0:
            return
        self.leave_checked_after = True
        if self.modes["onLeave"] not in DEFAULT_ONLEAVE_RAN:
            return
        beside = "/beside-locally-cancelled" if any(f.cancelled_local for f in self.futs) else ""
        for f in self.futs:
            if f.reissued:
                continue      # issued from an errback during the sweep itself: due when the transport is gone
            self.R.count("pending_after_leave_checked")
            if beside and not f.cancelled_local:
                self.R.count("pending_after_leave_beside_cancelled_checked")
            self.checked += 1
            if not f.done:
                self.v("pending-after-leave/%s/%s%s" % (f.kind, why, beside),
                       "%s request still pending after the default onLeave ran (%s)%s" % (
                           f.kind, why, "; the application had cancelled other outstanding requests: %s" % self.cancel_pattern() if beside else ""))

    def illegal_msg(self, name):
        base = name.split("@")[0]
        pend = {}
        if "@" in name:
            # issue a request first so that the illegal reply would match something if it were processed
            kind = {"RESULT": "call", "SUBSCRIBED": "subscribe", "ERROR": "call"}[base]
            n0 = len(self.H)
            self.issue([kind], note="pre-illegal")
            self.sync()
            for e in self.H[n0:]:
                if e[0] == "tx" and e[1] in ("CALL", "SUBSCRIBE"):
                    pend[e[1]] = e[2][1]
        rid = pend.get("CALL", pend.get("SUBSCRIBE", 424242))
        table = {
            "EVENT": [36, 5001, 6001, {}, ["x"]],
            "RESULT": [50, rid, {}, ["r"]],
            "GOODBYE": [6, {}, "wamp.close.normal"],
            "SUBSCRIBED": [33, rid, 9009],
            "INVOCATION": [68, 11, 12, {}],
            "ERROR": [8, 48, rid, {}, "wamp.error.runtime_error"],
            "PUBLISHED": [17, rid, 13],
            "REGISTERED": [65, rid, 14],
            "UNSUBSCRIBED": [35, rid],
            "UNREGISTERED": [67, rid],
            "INTERRUPT": [69, 15, {}],
            "HELLO": [1, "realm1", {"roles": {"caller": {}}}],
            "AUTHENTICATE": [5, "sig", {}],
            "CALL": [48, 16, {}, "com.x"],
            "WELCOME": [2, self.sid + 1, {"roles": WELCOME_ROLES, "realm": "realm1", "authid": "x", "authrole": "y"}],
            "CHALLENGE": [4, "ticket", {}],
            "ABORT": [3, {}, "wamp.error.system_shutdown"],
        }
        return table[base]

    def do_illegal(self, name):
        if self.phase not in ("connected", "challenged", "joined", "closing", "left", "aborted") or not self.may_send(name, ended_ok=True):
            return
        # after a completed GOODBYE exchange / after ABORT no session is established (any more): the statement's
        # pre-session rule applies again - the one illegal message of the quantifier may come at THIS position too
        ended = self.phase in ("left", "aborted")
        pre = self.phase in ("connected", "challenged") or ended
        base = name.split("@")[0]
        if (pre and base not in [x.split("@")[0] for x in ILLEGAL_PRE]) or (not pre and base not in ILLEGAL_POST):
            self.R.count("router_step_skipped")
            return
        if self.tclosing() or self.ambiguous:
            self.R.count("illegal_into_closing_transport_unchecked")
            return
        msg = self.illegal_msg(name)
        phase0 = self.phase
        n = len(self.H)
        self.send(msg, "ILLEGAL-" + base)
        new = self.H[n + 1:]
        ep = self.rp.ep
        rejected = ep.close_requested is not None or bool(self.rp.ws_close_frames) or ep.lost
        processed = [e for e in new if e[0] in ("cb", "obs", "tx") or (e[0] == "fut" and e[3] == "ok")]
        if not ended:
            self.R.count("illegal_pre_checked" if pre else "illegal_post_checked")
        self.R.seen("illegal_kinds", "%s/%s" % (phase0, name))
        self.checked += 1
        where = ("after-goodbye" if phase0 == "left" else "after-abort") if ended else ("pre" if pre else "post")
        if ended:
            self.R.count("illegal_after_end_checked")
            if phase0 == "left":
                self.R.count("illegal_after_goodbye_%s_initiated" % ("client" if self.client_initiated else "router"))
        if processed:
            what = processed[0]
            self.v("illegal-accepted/%s/%s/processed-%s-%s" % (where, name, what[0], what[1]),
                   "%s in phase '%s' was processed instead of being rejected: %s" % (name, phase0, [list(map(str, p[:3])) for p in processed[:4]]))
        elif not rejected:
            self.v("illegal-accepted/%s/%s/not-rejected" % (where, name),
                   "%s in phase '%s' did not fail the transport (no close / abort requested)" % (name, phase0))
        self.phase = "violated"
        self.end_reason = "illegal-" + where

    # ------------------------------------------------------------------ user side
    def do_leave(self):
        self.H.append(("do", "leave"))
        n = len(self.H)
        try:
            self.session.leave()
        except Exception as e:
            self.H.append(("api-raise", "leave", type(e).__name__))
        self.sync()
        self.R.count("local_leave")
        if self.phase == "joined" and any(e[0] == "tx" and e[1] == "GOODBYE" for e in self.H[n:]):
            self.phase = "closing"

    def do_rejoin(self):
        """A second session on the SAME transport: after a completed GOODBYE exchange / a router ABORT with an
        onLeave that kept the transport, the application calls join() again (HELLO -> ...).  join/leave are per
        session, connect/disconnect per transport connection; everything else applies to the new session afresh."""
        if self.phase not in ("left", "aborted") or self.rp.ep.lost or self.tclosing() or self.ambiguous:
            self.R.count("rejoin_skipped")
            return
        if self.client_abort and not self.router_abort and self.phase == "aborted":
            self.R.count("rejoin_skipped")      # the client aborted the handshake itself: the router may still answer the HELLO it saw
            return
        self.H.append(("do", "rejoin"))
        n = len(self.H)
        self.hello_seen = False
        try:
            self.session.join("realm1")
        except Exception as e:
            self.H.append(("api-raise", "join", type(e).__name__))
        self.sync()
        if not any(e[0] == "tx" and e[1] == "HELLO" for e in self.H[n:]):
            self.R.count("rejoin_without_hello")
            self.hello_seen = False
            return
        self.R.count("rejoined")
        self.R.seen("rejoin_after", "%s/%s" % (self.end_reason, "client" if self.client_initiated else "router"))
        # ---- a new session begins
        self.sess_no += 1
        self.sess_start = n
        self.sid = self.sid + 1 if self.sid < 2 ** 53 else self.sid - 1      # stay inside the WAMP id range
        self.phase = "connected"
        self.joined_model = False
        self.router_abort = False
        self.client_abort = False
        self.client_initiated = False
        self.end_reason = None
        self.n_challenges = 0
        self.goodbyes = 0
        self.leave_checked_after = False
        for tag in ("cb", "obs"):
            self.seen[tag] -= {"join", "leave"}
            self.last_rank[tag] = min(self.last_rank[tag], RANK["connect"])
            self.last_ev[tag] = "connect"

    def do_disconnect(self):
        self.H.append(("do", "disconnect"))
        self.local_disconnect = True
        try:
            self.session.disconnect()
        except Exception as e:
            self.H.append(("api-raise", "disconnect", type(e).__name__))
        self.sync()
        self.R.count("local_disconnect")

    def do_setup(self, spares=0):
        """Put one subscription and one registration in place (needed for unsubscribe / unregister requests);
        ``spares``: a second pair, so that an errback can re-issue an unsubscribe / unregister."""
        if self.phase not in ("joined", "closing") or self.rp.ep.lost or self.tclosing():
            return
        s = self.session
        self.H.append(("do", "setup"))
        n = len(self.H)
        try:
            fs = s.subscribe(lambda *a, **k: self.H.append(("cb", "event-handler")), "com.c06.topic")
            fr = s.register(lambda *a, **k: 1, "com.c06.proc")
        except Exception as e:
            self.H.append(("api-raise", "setup", type(e).__name__))
            return
        rs = FutRec(self, "setup-subscribe", -1, fs, self.phase)
        rr = FutRec(self, "setup-register", -2, fr, self.phase)
        rs2 = rr2 = None
        rsh = []
        try:
            # the same topic subscribed three times: the broker answers with ONE subscription id, the session keeps
            # a list of handler subscriptions for it (only the last one to go talks to the broker)
            for i in range(3):
                rsh.append(FutRec(self, "setup-subscribe", -10 - i,
                                  s.subscribe(lambda *a, **k: None, "com.c06.topic.shared"), self.phase))
        except Exception as e:
            self.H.append(("api-raise", "setup", type(e).__name__))
        if spares:
            try:
                rs2 = FutRec(self, "setup-subscribe", -3, s.subscribe(lambda *a, **k: None, "com.c06.topic.spare"), self.phase)
                rr2 = FutRec(self, "setup-register", -4, s.register(lambda *a, **k: 2, "com.c06.proc.spare"), self.phase)
            except Exception as e:
                self.H.append(("api-raise", "setup", type(e).__name__))
        self.sync()
        ids = {"com.c06.topic": 9001, "com.c06.proc": 9002, "com.c06.topic.spare": 9003, "com.c06.proc.spare": 9004,
               "com.c06.topic.shared": 9005}
        for e in self.H[n:]:
            if e[0] == "tx" and e[1] == "SUBSCRIBE":
                self.H.append(("rx", "SUBSCRIBED"))
                self.rp.send([33, e[2][1], ids.get(e[2][3], 9009)])
            elif e[0] == "tx" and e[1] == "REGISTER":
                self.H.append(("rx", "REGISTERED"))
                self.rp.send([65, e[2][1], ids.get(e[2][3], 9010)])
        self.sync()
        if rs.results and rs.results[0][0] == "ok":
            self.sub = rs.results[0][1]
        if rr.results and rr.results[0][0] == "ok":
            self.reg = rr.results[0][1]
        if rs2 and rs2.results and rs2.results[0][0] == "ok":
            self.sub2 = rs2.results[0][1]
        if rr2 and rr2.results and rr2.results[0][0] == "ok":
            self.reg2 = rr2.results[0][1]
        sh = [r.results[0][1] for r in rsh if r.results and r.results[0][0] == "ok"]
        if len(sh) == 3 and len(set(x.id for x in sh)) == 1:
            self.shared = sh
            self.R.count("shared_subscription_set_up")

    RETRY_OTHER = {"call": "publish", "publish": "subscribe", "subscribe": "register", "register": "call",
                   "unsubscribe": "unregister", "unregister": "unsubscribe"}

    def _reissue(self, rec, retry):
        """Runs INSIDE the errback of ``rec`` (the common retry-on-error idiom): issue one more request of the
        same / of another kind.  It either raises right away or returns a future that must be completed (with an
        error) by the time the transport is gone."""
        k2 = rec.kind if retry == "same" else self.RETRY_OTHER[rec.kind]
        self.R.count("reissued_in_errback")
        self.R.count("reissued_in_errback_" + rec.kind)
        for kind, r in self.issue([k2], note="retry-of-%s" % rec.kind, tag="redo", reissued=True):
            if isinstance(r, FutRec):
                self.R.count("reissued_future_returned")
                self.R.seen("reissue_outcomes", "%s/future/%s" % (kind, self.phase))
            else:
                self.R.seen("reissue_outcomes", "%s/%s" % (kind, r))

    def _cancel_next(self, rec):
        """Runs INSIDE the errback of ``rec`` while the library fails the outstanding requests: the application gives
        up on ONE other request that is still pending (the next one in issue order, cyclically) by cancelling its
        Deferred / Future.  That entry is complete by the time the library's sweep reaches it; all the others are due."""
        if rec.cancelled_local:
            return      # a cancellation does not cascade
        n = len(self.futs)
        i0 = self.futs.index(rec) if rec in self.futs else 0
        for j in range(1, n):
            f = self.futs[(i0 + j) % n]
            if f.done or f.cancelled_local or f.reissued or (not txaio.using_twisted and f.fut.done()):
                continue
            self.H.append(("redo", "cancel-in-errback:%s" % f.kind))
            f.cancelled_local = True
            self.R.count("cancelled_local")
            self.R.count("cancelled_in_errback")
            try:
                f.fut.cancel()
            except Exception as e:
                self.H.append(("api-raise", "cancel", type(e).__name__))
            return

    def issue(self, kinds, note="req", retry=None, tag="do", reissued=False):
        """Issue one request per kind and leave it unanswered.  Returns [(kind, 'raised'|FutRec|None)].
        ``retry``: 'same' | 'other' - the errback of each request re-issues one request (once)."""
        from autobahn.wamp.types import PublishOptions
        s = self.session
        out = []
        if retry == "cancel_next":
            on_err = self._cancel_next
        else:
            on_err = (lambda rec: self._reissue(rec, retry)) if retry else None
        for k in kinds:
            self.H.append((tag, "%s:%s" % (note, k)))
            try:
                if k == "call":
                    f = s.call("com.c06.slow", 1)
                elif k == "publish":
                    f = s.publish("com.c06.t2", 1, options=PublishOptions(acknowledge=True))
                elif k == "publish_plain":        # option variants (driven after the end: every one must fail)
                    f = s.publish("com.c06.t2", 1, k=2)
                elif k == "publish_opts":
                    f = s.publish("com.c06.t2", 1, options=PublishOptions())
                elif k == "publish_noack":
                    f = s.publish("com.c06.t2", options=PublishOptions(acknowledge=False, exclude_me=False))
                elif k == "call_opts":
                    from autobahn.wamp.types import CallOptions
                    f = s.call("com.c06.slow", 1, options=CallOptions(timeout=5))
                elif k == "subscribe_opts":
                    from autobahn.wamp.types import SubscribeOptions
                    f = s.subscribe(lambda *a, **kw: None, "com.c06", options=SubscribeOptions(match="prefix"))
                elif k == "register_opts":
                    from autobahn.wamp.types import RegisterOptions
                    f = s.register(lambda *a, **kw: None, "com.c06.p4", options=RegisterOptions(invoke="roundrobin"))
                elif k == "subscribe":
                    f = s.subscribe(lambda *a, **kw: None, "com.c06.t3")
                elif k == "register":
                    f = s.register(lambda *a, **kw: None, "com.c06.p3")
                elif k == "unsubscribe":
                    sub = next((x for x in (self.sub, self.sub2) if x is not None and x.active), None)
                    if sub is None:
                        out.append((k, None))
                        continue
                    f = sub.unsubscribe()
                elif k.startswith("unsubscribe_shared_"):
                    i = {"first": 0, "next": 1, "last": 2}[k.rsplit("_", 1)[1]]
                    if len(self.shared) != 3 or not self.shared[i].active:
                        out.append((k, None))
                        continue
                    f = self.shared[i].unsubscribe()
                elif k == "subscribe_obj":
                    f = s.subscribe(_decorated()[0]())
                elif k == "register_obj":
                    f = s.register(_decorated()[1]())
                elif k == "join":
                    f = s.join("realm1")
                elif k == "unregister":
                    reg = next((x for x in (self.reg, self.reg2) if x is not None and x.active), None)
                    if reg is None:
                        out.append((k, None))
                        continue
                    f = reg.unregister()
                else:
                    raise ValueError(k)
            except Exception as e:
                self.H.append(("api-raise", k, type(e).__name__))
                out.append((k, "raised"))
                continue
            if _is_future(f):
                self.nfut += 1
                rec = FutRec(self, k, self.nfut, f, self.phase, on_err=on_err, reissued=reissued)
                self.futs.append(rec)
                out.append((k, rec))
            else:
                self.H.append(("api-returned", k, type(f).__name__))
                out.append((k, "returned-%s" % type(f).__name__))
        return out

    def do_req(self, kinds, retry=None):
        if self.rp.ep.lost:
            return
        self.issue(kinds, retry=retry)
        self.sync()
        self.R.count("requests_issued", len(kinds))

    def do_cancel(self, mask):
        """The APPLICATION gives up on outstanding requests: it cancels their Deferred / Future (d.cancel(), a fired
        d.addTimeout(), asyncio.wait_for() timing out, task cancellation).  ``mask``: bit i = the i-th outstanding
        request in issue order.  The library keeps such a request in its table (a cancelled call until the router
        confirms the CANCEL with ERROR; the other kinds until the reply arrives) - the scripted router does not
        answer, so the completed entry is still there when the session ends.  Every OTHER outstanding request
        must still be failed then."""
        if self.rp.ep.lost:
            return
        live = [f for f in self.futs if not f.done]
        for i, f in enumerate(live):
            if not (mask >> i) & 1 or f.done:
                continue
            self.H.append(("do", "cancel:%s" % f.kind))
            try:
                f.fut.cancel()
            except Exception as e:
                self.H.append(("api-raise", "cancel", type(e).__name__))
            f.cancelled_local = True
            self.R.count("cancelled_local")
            self.R.count("cancelled_local_" + f.kind)
            self.sync()      # asyncio: the canceller (CANCEL on the wire) runs one loop iteration later

    # ------------------------------------------------------------------ transport
    def complete_close(self):
        """The router side reacts to a close the client asked for.  -> True if the transport is gone now."""
        rp = self.rp
        ep = rp.ep
        if ep.lost:
            return True
        if self.kind == "websocket" and rp.ws_close_frames and ep.close_requested is None:
            # closing handshake: echo the close frame, then the (server) router drops TCP
            self.H.append(("t", "ws-close-reply"))
            ep.feed(ref.encode_frame(ref.OP_CLOSE, ref.close_payload(rp.ws_close_frames[-1][0] or 1000, "")))
            rp.world.settle()
            self.sync()
            if not ep.lost:
                if ep.close_requested:
                    rp.finish()
                else:
                    rp.lose(clean=True)
            self.sync()
            return True
        if ep.close_requested:
            self.H.append(("t", "finish", ep.close_requested))
            rp.finish()
            self.sync()
            return True
        return False

    def do_finish(self):
        if self.complete_close():
            self.after_gone("own-close")

    def do_lose(self, clean):
        if self.rp.ep.lost:
            return
        self.H.append(("t", "lose", "clean" if clean else "unclean"))
        cls = self.loss_class()
        self.rp.lose(clean=bool(clean))
        self.sync()
        if not self.rp.ep.lost:      # half-open kept by the protocol (eof_received -> True): force it
            self.rp.lose(clean=False)
            self.sync()
        self.R.count("loss_" + cls)
        if cls == "joined_outstanding":
            for f in self.futs:
                self.R.count("loss_joined_outstanding_" + f.kind)
        self.after_gone("clean" if clean else "unclean")

    def loss_class(self):
        if self.phase == "connected":
            return "before_answer"
        if self.phase == "challenged":
            return "challenged"
        if self.phase == "joined":
            return "joined_outstanding" if any(not f.done for f in self.futs) else "joined_idle"
        if self.phase == "closing":
            return "closing"
        return "after_" + self.phase

    # ------------------------------------------------------------------ end of life
    def after_gone(self, how):
        """All checks that are due the moment the transport is gone."""
        if self.phase == "gone":
            return
        R = self.R
        was = self.phase
        if self.end_reason is None:
            self.end_reason = "lost-" + was
        self.phase = "gone"
        R.seen("end_reasons", "%s/%s" % (self.end_reason, how))
        ncon = self.count_cb("cb", "connect")
        # -- disconnect must have happened (exactly once; twice is caught by the scan)
        R.count("disconnect_checked")
        self.checked += 1
        if ncon and self.count_cb("cb", "disconnect") == 0:
            self.v("disconnect-missing/%s/%s" % (how, self.end_reason),
                   "transport gone (%s) but onDisconnect never fired" % how)
        elif ncon and self.modes["onDisconnect"] == "ok" and self.count_cb("obs", "disconnect") == 0:
            self.v("disconnect-observer-missing/%s" % how, "onDisconnect returned normally but 'disconnect' observers did not fire")
        # -- leave fired exactly when a joined session ended or the router aborted
        fired = self.count_cb("cb", "leave")
        joined_obs = self.count_cb("cb", "join") > 0
        if self.ambiguous:
            exp = True if joined_obs else (None if (self.router_abort or self.client_abort) else False)
        elif self.joined_model or self.router_abort:
            exp = True
        elif self.client_abort:
            exp = None      # grey: the client aborted the handshake itself (statement names only the router's ABORT)
        else:
            exp = False
        if exp is True:
            R.count("leave_expected_checked")
            self.checked += 1
            if fired == 0:
                self.v("leave-missing/%s" % self.end_reason,
                       "a joined session ended (%s, transport %s) without onLeave" % (self.end_reason, how))
        elif exp is False:
            R.count("leave_forbidden_checked")
            self.checked += 1
            if fired:
                self.v("leave-spurious/%s" % self.end_reason,
                       "onLeave fired although the session never joined and the router did not abort (%s)" % self.end_reason)
        else:
            R.count("leave_grey")
        onleave_failed = any(e[0] == "usererror" and "onLeave" in e[2] for e in self.H)
        if fired and self.modes["onLeave"] in ("ok", "nosuper", "leave_again") and not onleave_failed:
            R.count("leave_observer_checked")
            if self.count_cb("obs", "leave") == 0:
                self.v("leave-observer-missing/%s" % self.end_reason, "onLeave returned normally but 'leave' observers did not fire")
        # -- nothing may remain pending (requests the application cancelled itself are complete; all OTHERS are due)
        beside = "/beside-locally-cancelled" if any(f.cancelled_local for f in self.futs) else ""
        if beside:
            R.seen("cancel_patterns", self.cancel_pattern())
        for f in self.futs:
            R.count("pending_checked_" + f.kind)
            if beside and not f.cancelled_local:
                R.count("pending_checked_beside_cancelled")
                R.count("pending_checked_beside_cancelled_" + f.kind)
            self.checked += 1
            if not f.done:
                self.v("pending-after-end/%s/%s%s" % (f.kind, self.end_reason, beside),
                       "%s request issued in phase '%s' is still pending after the transport is gone (session end: %s)%s" % (
                           f.kind, f.issued_phase, self.end_reason,
                           "; the application had cancelled other outstanding requests: %s" % self.cancel_pattern() if beside else ""))
            elif f.results[0][0] == "ok" and self.end_reason and not self.end_reason.startswith("illegal"):
                self.v("pending-after-end/%s/completed-without-reply" % f.kind,
                       "%s request completed successfully although the router never replied" % f.kind)
        # -- API calls after the end fail immediately
        self.api_after_end()

    def api_after_end(self):
        R = self.R
        want = self.case.get("post_api") or POST_KINDS
        n = len(self.H)
        res = self.issue(want, note="post-end")
        self.sync()
        for kind, r in res:
            if r is None:
                continue      # no subscription / registration object to act on
            R.count("api_after_end_checked")
            R.count("api_after_end_" + kind)
            self.checked += 1
            if r == "raised":
                R.seen("api_after_end_outcomes", kind + "/raised")
                continue
            if isinstance(r, str):
                self.v("api-after-end/%s/%s" % (kind, r), "%s() after the end %s instead of failing" % (kind, r.replace("-", " a ", 1)))
                continue
            self.futs.remove(r)
            if not r.done:
                self.v("api-after-end/%s/hangs" % kind,
                       "%s() after the session/transport ended returned a future that does not complete" % kind)
            elif r.results[0][0] == "ok":
                self.v("api-after-end/%s/succeeds" % kind, "%s() after the end completed successfully" % kind)
            else:
                R.seen("api_after_end_outcomes", kind + "/failed-future")
        for name in ("leave", "disconnect"):
            self.H.append(("do", "post-end:" + name))
            try:
                getattr(self.session, name)()
            except Exception as e:
                self.H.append(("api-raise", name, type(e).__name__))
            R.count("api_after_end_" + name)
        self.sync()
        if any(e[0] in ("tx", "txclose") for e in self.H[n:]):
            self.v("api-after-end/writes", "an API call after the end put a message on the wire")

    def end(self):
        if self.phase != "gone":
            if self.rp.ep.lost:
                self.after_gone("lost")
            elif self.complete_close():
                self.after_gone("own-close")
            else:
                self.H.append(("t", "lose", "teardown"))
                self.rp.lose(clean=False)
                self.sync()
                self.after_gone("teardown")
        self.sync()

    # ------------------------------------------------------------------ driver
    def run(self):
        R = self.R
        R.count("evaluations")
        rp = self.rp = RP(self, self._make_session, transport=self.kind, serializer=self.ser)
        try:
            rp.connect()
            self.sync()
            for i, step in enumerate(self.case["steps"]):
                self.H.append(("step", i, step[0]))
                getattr(self, "do_" + step[0])(*step[1:])
                self.sync()
                if self.phase == "gone":
                    break
            self.end()
        finally:
            rp.close_world()
        R.seen("phases_reached", self.end_reason or "?")
        shape = "c%d-%s" % (self.n_challenges, "welcome" if self.joined_model else (
            "rabort" if self.router_abort else ("cabort" if self.client_abort else "none")))
        R.count("conv_" + shape)
        sig = [e[:2] if e[0] in ("cb", "obs", "tx", "rx", "t", "do") else e[:1] for e in self.H if e[0] != "step"]
        R.seen("histories", h([self.kind, sig]))
        if self.checked:
            R.seen("nontrivial", h(["tx" if txaio.using_twisted else "aio", self.kind, self.ser, self.modes, self.case["steps"]]))
        return self
