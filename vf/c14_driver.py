"""C14 driver: plays one *case* (configuration + per-attempt outcome script + optional stop() point) against a REAL
component through vf.c14_harness and returns the observation log.  Nothing in here decides the property.

A case (JSON-able)::

    {"transports": [{"kind": "websocket"|"rawsocket", "ser": "json", "max_retries": 2, "initial_retry_delay": 1.5,
                     "retry_delay_growth": 1.5, "retry_delay_jitter": 0.1, "max_retry_delay": 5, "ep": "url"|"dict"|"unix",
                     "tls": True (optional: a TLS transport - wss:// / rss:// URL, asyncio endpoint dict with tls=True)}, ..],
     "main": None | "sync" | "async",          # Component(main=...) and whether it completes at join time or later
     "fatal": None | "always" | "never" | "oserror" | "apperror" | "nth:<k>",     # is_fatal classifier
     "script": ["R", "H", "Hd", "A", "L", "Lc", "K", "G", "M", "E", ...],  # outcome of attempt 0, 1, ..; afterwards "R"
     "stop": None | {"at": n, "phase": "delay"|"inflight"|"connected"|"handshaken"|"joined"},
     "taps": bool,                              # also register listeners on every session object itself
     "cap": 12}                                 # attempts after which the run is ended (stop() for unlimited budgets)

Outcome alphabet (one letter per connection attempt; what the 'network' and the router do):
    R   connection refused                          Rx  refused with a non-OSError exception
    Hd  TCP accepted, dropped before any reply      H   transport handshake answered with a refusal
    He / Hde  (asyncio) like H / Hd, but the teardown - the refusal, the protocol's close(), connection_lost() - is
        DELIVERED BEFORE the future of create_connection() completes (a real loop resumes the awaiting task several
        iterations after connection_made(); everything above fits in between).  On Twisted the endpoint Deferred
        fires synchronously after makeConnection(), so the ordering does not exist: He/Hde are played as H/Hd.
    D<p><c|u>  the peer ends the TCP connection BEFORE a session exists: p=0 right after accept, p=1 after it read the client's
        handshake octets, p=2 after a partial handshake reply; c = orderly close (FIN: Twisted ConnectionDone, asyncio
        connection_lost(None)), u = reset.  (Hd is D0u.)
    A   transport up, HELLO answered with ABORT
    L   WELCOME, then TCP lost (reset)              Lc  WELCOME, then TCP closed cleanly without GOODBYE
    K   WELCOME, then the ROUTER closes the session (GOODBYE wamp.close.system_shutdown)
    G   WELCOME, then the application calls session.leave(); router replies GOODBYE       [terminal, success]
    M   WELCOME, main() returns                                                          [terminal, success]
    E   WELCOME, main() raises
    Gl  WELCOME, the application calls session.leave(), TCP is lost BEFORE the router's GOODBYE reply
    Ml  WELCOME, main() returns (-> the component calls leave()), TCP is lost BEFORE the router's GOODBYE reply
    J   WELCOME, then nothing: the session stays joined until the end of the run        [last letter of a script]
  WHAT the network boundary reports for a failure (the exception class is part of the workload; see failure_reason()):
    Rr / Rt / Rg  connection refused / timed out / name not resolved, reported with the exception class the FRAMEWORK's own
        connect call uses (Twisted: twisted.internet.error.ConnectionRefusedError / TimeoutError / DNSLookupError - none
        of them an OSError; asyncio: TimeoutError, socket.gaierror - OSErrors with other args than a refusal)
    Tv / Tw  TLS handshake fails on a TLS transport (certificate verify failed / peer does not speak TLS).  asyncio:
        loop.create_connection() RAISES ssl.SSLCertVerificationError / ssl.SSLError (an OSError with args (errno, text));
        the protocol never sees connection_made.  Twisted: the endpoint Deferred has fired (TCP up, protocol connected),
        then connectionLost(Failure(OpenSSL.SSL.Error([(lib, func, reason)]))) - both probed against the real frameworks.
    Ds  transport up (TLS transport), TLS-layer error (bad record) ends the connection after the client's handshake octets
    Ls  WELCOME, then the connection ends with a TLS-layer error
  (T*/Ds/Ls are only scripted for cases whose transports are all TLS transports: wss:// / rss:// / endpoint tls=True.)
(stop() at phase "joined" followed by L/Lc is the third "leave requested, lost before the reply" variant.)
Within one attempt no virtual time passes: the router reacts immediately and compliantly (closing handshakes are
answered, TCP is dropped after them), so the end of an attempt has ONE virtual time stamp.
"""

import copy
import logging

import txaio

from . import c14_harness as H
from .wamp_harness import Outcome

PHASES = ("delay", "inflight", "connected", "handshaken", "joined")
JOINING = ("L", "Lc", "K", "G", "M", "E", "Gl", "Ml", "J", "Ls")
NATIVE_REFUSALS = {"tx": ("Rr", "Rt", "Rg"), "aio": ("Rt", "Rg")}
TLS_OUTCOMES = ("Tv", "Tw", "Ds", "Ls")       # need TLS transports
TERMINAL_OK = ("G", "M")
APPLICABLE = {           # phases of an attempt that exist for an outcome
    "R": ("delay", "inflight"), "Rx": ("delay", "inflight"),
    "Hd": ("delay", "inflight", "connected"), "H": ("delay", "inflight", "connected"),
    "Hde": ("delay", "inflight", "connected"), "He": ("delay", "inflight", "connected"),
    "A": ("delay", "inflight", "connected", "handshaken"),
}
for _o in ("Rr", "Rt", "Rg"):
    APPLICABLE[_o] = ("delay", "inflight")
for _o in ("Tv", "Tw", "Ds"):
    APPLICABLE[_o] = ("delay", "inflight", "connected")     # (asyncio Tv/Tw: no 'connected' phase - the connect call itself fails)
PRESESSION = tuple("D%d%s" % (_p, _c) for _p in (0, 1, 2) for _c in "cu")
for _o in PRESESSION:
    APPLICABLE[_o] = ("delay", "inflight", "connected")
for _o in JOINING:
    APPLICABLE[_o] = PHASES


def failure_reason(fw, why):
    """The exception the network boundary reports, as the real framework builds it (classes and args probed against a real
    asyncio loop / a real twisted.protocols.tls.TLSMemoryBIOProtocol).  -> (exception, 'native' | 'tls')"""
    if fw == "aio":
        import socket
        import ssl
        table = {
            "r": lambda: ConnectionRefusedError(111, "Connect call failed ('127.0.0.1', 9000)"),
            "t": lambda: TimeoutError(110, "Connect call failed ('127.0.0.1', 9000)"),
            "g": lambda: socket.gaierror(-2, "Name or service not known"),
            "v": lambda: ssl.SSLCertVerificationError(1, "[SSL: CERTIFICATE_VERIFY_FAILED] certificate verify failed: self-signed certificate (_ssl.c:1000)"),
            "w": lambda: ssl.SSLError(1, "[SSL: WRONG_VERSION_NUMBER] wrong version number (_ssl.c:1000)"),
            "s": lambda: ssl.SSLError(1, "[SSL: DECRYPTION_FAILED_OR_BAD_RECORD_MAC] decryption failed or bad record mac (_ssl.c:2580)"),
        }
    else:
        from OpenSSL import SSL
        from twisted.internet import error
        table = {
            "r": lambda: error.ConnectionRefusedError("Connection refused"),
            "t": lambda: error.TimeoutError(),
            "g": lambda: error.DNSLookupError("address 'router.invalid' not found: [Errno -2] Name or service not known."),
            "v": lambda: SSL.Error([("SSL routines", "", "certificate verify failed")]),
            "w": lambda: SSL.Error([("SSL routines", "", "wrong version number")]),
            "s": lambda: SSL.Error([("SSL routines", "", "decryption failed or bad record mac")]),
        }
    return table[why](), ("tls" if why in "vws" else "native")


class Breach(Exception):
    def __init__(self, result, cap):
        Exception.__init__(self, "next_delay() returned %r (max_retry_delay=%r)" % (result, cap))
        self.result = result
        self.cap = cap


_contract = {"installed": False, "evaluations": 0, "breaches": []}


def install_next_delay_contract():
    """icontract post-condition on the REAL _Transport.next_delay: 0 <= result <= self.max_retry_delay.
    Breaches are recorded and the original return value is handed on (monitoring must not change the run)."""
    if _contract["installed"]:
        return _contract
    import icontract
    from autobahn.wamp import component as wc

    def next_delay_within_bounds(result, self):
        _contract["evaluations"] += 1
        return 0 <= result <= self.max_retry_delay

    contracted = icontract.ensure(next_delay_within_bounds,
                                  error=lambda result, self: Breach(result, self.max_retry_delay))(wc._Transport.next_delay)

    def next_delay(self):
        try:
            return contracted(self)
        except Breach as b:
            _contract["breaches"].append((b.result, b.cap))
            return b.result

    wc._Transport.next_delay = next_delay
    _contract["installed"] = True
    return _contract


def make_classifier(policy, calls, current):
    if policy is None:
        return None

    def is_fatal(exc):
        k = len(calls)
        if policy == "always":
            v = True
        elif policy == "never":
            v = False
        elif policy == "oserror":
            v = isinstance(exc, OSError)
        elif policy == "apperror":
            from autobahn.wamp.exception import ApplicationError
            v = isinstance(exc, ApplicationError)
        elif policy.startswith("nth:"):
            v = (k == int(policy[4:]))
        else:
            raise ValueError(policy)
        calls.append({"attempt": current[0], "exc": type(exc).__name__, "fatal": v})
        return v
    return is_fatal


class Run:
    def __init__(self, case, strict_reactor=True):
        self.case = case
        self.tcfgs = case["transports"]
        self.script = list(case.get("script") or [])
        self.stop_at = case.get("stop")
        self.cap = case.get("cap", 12)
        self.net = H.Net(self.tcfgs, strict_reactor=strict_reactor)
        self.world = self.net.world
        self.obs = {
            "attempts": [],        # {"n","tidx","t","outcome","t_end","joined","hello","end"}
            "listener": [],        # (t, event, session#)      component-level listeners
            "hooks": [],           # (t, hook, session#)       on_connect/on_join/on_leave/on_disconnect of the session class
            "session_listener": [],  # (t, event, session#)    listeners registered on the session object itself
            "sessions": 0,
            "classifier": [],
            "connectfailure": 0,
            "start_results": None,
            "done_calls": None,
            "stop": None,          # {"t", "n", "phase", "returned"|"raised", "done_before"}
            "stop_skipped": False,
            "escaped": [],
            "negative_delays": [],
            "jitter_draws": 0,
            "breaches": [],
            "contract_evaluations": 0,
            "main_calls": 0,
            "quiescent": False,
            "open_conns_at_end": 0,
            "pending_at_end": 0,
            "t_start": None,
            "t_end": None,
            "capped": False,
            "harness_notes": [],
        }
        self.cur = [None]           # attempt number being played (for the classifier log)
        self.cur_outcome = None
        self.main_futs = {}         # session# -> pending future returned by main
        self.sessions = []
        self.comp = None
        self.out = None

    # -- component under test ------------------------------------------------------------------------------
    def _build(self):
        run = self
        Session = H.session_class()
        obs = self.obs
        now = self.net.now

        class TapSession(Session):
            def __init__(self, config=None):
                Session.__init__(self, config)
                self._c14_id = len(run.sessions)
                run.sessions.append(self)
                obs["sessions"] += 1
                if run.case.get("taps"):
                    # listeners on the session object itself (only in some cases: a session with listeners of its
                    # own for an event could mask a bubbling defect that depends on their absence)
                    for ev in H.EVENTS:
                        self.on(ev, lambda *a, _ev=ev, **kw: obs["session_listener"].append((now(), _ev, self._c14_id)))

            def on_connect(self):
                obs["hooks"].append((now(), "connect", self._c14_id))
                return Session.on_connect(self)

            def on_join(self, details):
                obs["hooks"].append((now(), "join", self._c14_id))
                return Session.on_join(self, details)

            def on_leave(self, details):
                obs["hooks"].append((now(), "leave", self._c14_id))
                return Session.on_leave(self, details)

            def on_disconnect(self):
                obs["hooks"].append((now(), "disconnect", self._c14_id))
                return Session.on_disconnect(self)

        main = None
        mode = self.case.get("main")
        if mode:
            def main(reactor, session):
                obs["main_calls"] += 1
                o = run.cur_outcome
                if mode == "sync":
                    if o in ("M", "Ml"):
                        return None
                    if o == "E":
                        raise RuntimeError("main failed")
                f = txaio.create_future()
                run.main_futs[session._c14_id] = f
                return f

        C = H.component_class()
        comp = C(transports=[self.net.transport_config(i) for i in range(len(self.tcfgs))], realm="realm1",
                 main=main, session_factory=TapSession,
                 is_fatal=make_classifier(self.case.get("fatal"), obs["classifier"], self.cur))
        for ev in H.EVENTS:
            comp.on(ev, lambda s, *a, _ev=ev, **kw: obs["listener"].append((now(), _ev, getattr(s, "_c14_id", None))))

        def on_cf(*a, **kw):
            obs["connectfailure"] += 1
        comp.on("connectfailure", on_cf)
        self.comp = comp

    def _tap_done_time(self, f):
        obs, now = self.obs, self.net.now
        obs["t_done"] = []
        if txaio.using_twisted:
            def rec(r):
                obs["t_done"].append(now())
                return r
            f.addBoth(rec)
        else:
            f.add_done_callback(lambda _f: obs["t_done"].append(now()))

    # -- stop() ------------------------------------------------------------------------------------------------
    def _stop_if(self, n, phase):
        s = self.stop_at
        if not s or self.obs["stop"] is not None or s["at"] != n or s["phase"] != phase:
            return
        rec = {"t": self.net.now(), "n": n, "phase": phase, "done_before": bool(self.out.results)}
        self.obs["stop"] = rec
        try:
            r = self.comp.stop()
            rec["returned"] = type(r).__name__
        except Exception as e:      # an exception out of stop() reaches the application
            rec["raised"] = "%s: %s" % (type(e).__name__, e)
        self.world.settle()

    # -- router behaviour ----------------------------------------------------------------------------------------
    def _service(self, rc):
        """Compliant router: answer a client GOODBYE, complete closing handshakes, drop TCP afterwards."""
        if rc.ep.lost:
            return
        for m in rc.recv():
            if isinstance(m, list) and m and m[0] == 6 and not getattr(rc, "goodbye_replied", False) and not getattr(rc, "router_said_goodbye", False):
                rc.goodbye_replied = True
                rc.send([6, {}, "wamp.close.goodbye_and_out"])
        rc.drain_close()

    def _service_all(self):
        for rc in self.net.conns:
            if not rc.ep.lost:
                self._service(rc)

    def _play(self, p, outcome):
        net = self.net
        rec = {"n": p.n, "tidx": p.tidx, "t": p.t, "outcome": outcome, "joined": False, "hello": False,
               "end": None, "t_end": None, "sessions_before": self.obs["sessions"]}
        self.obs["attempts"].append(rec)
        self.cur[0] = p.n
        self.cur_outcome = outcome
        self._stop_if(p.n, "inflight")
        if p.cancelled:
            rec["end"] = "connect-cancelled"
            rec["t_end"] = net.now()
            return rec
        kind = self.tcfgs[p.tidx]["kind"]
        fw = self.world.fw
        if outcome in ("R", "Rx"):
            p.refuse(RuntimeError("TLS negotiation failed") if outcome == "Rx" else None)
            rec["end"] = "refused"
        elif outcome in ("Rr", "Rt", "Rg"):
            exc, rec["reason_class"] = failure_reason(fw, outcome[1])
            rec["reason"] = type(exc).__name__
            p.refuse(exc)
            rec["end"] = "refused"
        elif outcome in ("Tv", "Tw") and fw == "aio":
            # asyncio: the TLS handshake is part of create_connection(); its failure is the result of the connect call
            exc, rec["reason_class"] = failure_reason(fw, outcome[1])
            rec["reason"] = type(exc).__name__
            p.refuse(exc)
            rec["end"] = "tls-handshake-failed"
        else:
            early = outcome in ("He", "Hde") and self.world.fw == "aio"
            rc = p.establish(defer_result=early)
            rec["conn"] = len(net.conns) - 1
            self._stop_if(p.n, "connected")
            if outcome in ("Tv", "Tw", "Ds"):
                # Twisted Tv/Tw: the endpoint Deferred fired when TCP came up; the failed TLS handshake is a connectionLost
                # with the OpenSSL error.  Ds (both): TLS-layer error on an established transport, before any session.
                exc, rec["reason_class"] = failure_reason(fw, "s" if outcome == "Ds" else outcome[1])
                rec["reason"] = type(exc).__name__
                if outcome == "Ds":
                    rc.ep.take_output()
                if not rc.ep.lost:
                    rc.ep._lose_with(exc)
                    self.world.settle()
                rec["presession"] = "reset"
                rec["end"] = "tls-error-before-session" if outcome == "Ds" else "tls-handshake-failed"
            elif outcome in ("Hd", "Hde"):
                rc.lose(False)
                rec["end"] = "dropped-before-handshake"
            elif outcome in PRESESSION:
                point, clean = int(outcome[1]), outcome[2] == "c"
                if point >= 1:
                    rc.ep.take_output()                    # the peer has read the client's handshake octets
                if point == 2:
                    if kind == "websocket":
                        rc.ep.feed(b"HTTP/1.1 101 Switching Protocols\r\nUpgrade: websocket\r\n")
                    else:
                        rc.ep.feed(bytes([0x7F, 0xF1]))      # 2 of the 4 RawSocket handshake octets
                    self.world.settle()
                if not rc.ep.lost:
                    rc.lose(clean)
                if not rc.ep.lost:
                    # (asyncio: a protocol may keep the half-closed transport; the peer's socket is gone for good)
                    if not rc.drain_close():
                        rc.lose(False)
                    rec["half_closed_kept"] = True
                rec["presession"] = "clean" if clean else "reset"
                rec["end"] = "peer-%s-%s" % ("closed" if clean else "reset",
                                             ("after-accept", "after-client-handshake", "after-partial-reply")[point])
            elif outcome in ("H", "He"):
                rc.ep.take_output()
                if kind == "websocket":
                    rc.ep.feed(b"HTTP/1.1 403 Forbidden\r\nContent-Length: 0\r\n\r\n")
                else:
                    rc.ep.feed(bytes([0x7F, 0x10, 0, 0]))      # RawSocket error: serializer unsupported
                self.world.settle()
                if not rc.drain_close():
                    rc.lose(True)
                rec["end"] = "handshake-refused"
            else:
                try:
                    rc.complete_handshake()
                    hs_ok = True
                except AssertionError as e:
                    hs_ok = False
                    self.obs["harness_notes"].append("no transport handshake from client on attempt %d: %s" % (p.n, e))
                msgs = rc.recv() if hs_ok else []
                rec["hello"] = bool(msgs and isinstance(msgs[0], list) and msgs[0][0] == 1)
                if not rec["hello"]:
                    # the client never said HELLO (can only follow a stop()/close by the component): hang up
                    if not rc.drain_close():
                        rc.lose(False)
                    rec["end"] = "no-hello"
                else:
                    self._stop_if(p.n, "handshaken")
                    self._after_hello(p, rc, outcome, rec)
        if outcome in ("He", "Hde") and self.world.fw == "aio":
            # only now does the awaiting task of create_connection() resume: transport already closing / lost
            rec["early"] = True
            rec["end"] += "-before-connect-result"
            p.complete_connect()
        rec["t_end"] = net.now()
        return rec

    def _after_hello(self, p, rc, outcome, rec):
        if rc.ep.lost or rc.ep.close_requested:
            # the component hung up between HELLO and the router's answer (after stop())
            if not rc.drain_close():
                rc.lose(False)
            rec["end"] = "client-closed-before-welcome"
            return
        if outcome == "A":
            rc.send([3, {"message": "no such realm"}, "wamp.error.no_such_realm"])
            if not rc.drain_close():
                rc.lose(True)
            rec["end"] = "abort"
            return
        rc.welcome(7000 + p.n)
        rec["joined"] = True
        rec["t_join"] = self.net.now()
        rec["session"] = len(self.sessions) - 1
        sess = self.sessions[-1] if self.sessions else None
        self._stop_if(p.n, "joined")
        if outcome in ("L", "Lc"):
            rec["goodbye_unanswered"] = any(isinstance(m, list) and m and m[0] == 6 for m in rc.recv())
            rc.lose(outcome == "Lc")
            rec["end"] = "lost" if outcome == "L" else "lost-clean"
        elif outcome == "Ls":
            rec["goodbye_unanswered"] = any(isinstance(m, list) and m and m[0] == 6 for m in rc.recv())
            exc, rec["reason_class"] = failure_reason(self.world.fw, "s")
            rec["reason"] = type(exc).__name__
            if not rc.ep.lost:
                rc.ep._lose_with(exc)
                self.world.settle()
            rec["end"] = "lost-tls-error"
        elif outcome == "K":
            if not rc.ep.lost:
                rc.router_said_goodbye = True
                rc.send([6, {"message": "router is shutting down"}, "wamp.close.system_shutdown"])
                rc.recv()
                if not rc.drain_close():
                    rc.lose(True)
            rec["end"] = "router-goodbye"
        elif outcome == "G":
            rec["end"] = "app-leave-not-possible"       # (only after a stop(): the session is no longer attached)
            try:
                if sess is not None and sess.is_attached():
                    sess.leave()
                    rec["end"] = "app-leave"
            except Exception as e:
                rec["end"] = "app-leave-raised"
                self.obs["harness_notes"].append("session.leave() raised %s" % type(e).__name__)
            self.world.settle()
            self._service(rc)
            if not rc.ep.lost:
                rc.lose(True)
        elif outcome == "J":
            rec["end"] = "stays-joined"
        elif outcome in ("Gl", "Ml"):
            if outcome == "Gl":
                try:
                    if sess is not None and sess.is_attached():
                        sess.leave()
                except Exception as e:
                    self.obs["harness_notes"].append("session.leave() raised %s" % type(e).__name__)
            else:
                f = self.main_futs.get(rec["session"])
                if f is not None and not txaio.is_called(f):
                    txaio.resolve(f, None)
            self.world.settle()
            said_goodbye = any(isinstance(m, list) and m and m[0] == 6 for m in rc.recv()) or getattr(rc, "client_goodbye_seen", False)
            rec["goodbye_unanswered"] = bool(said_goodbye)
            rc.lose(False)
            rec["end"] = ("leave-requested" if outcome == "Gl" else "main-returned") + "-then-lost-before-goodbye-reply"
        elif outcome in ("M", "E"):
            f = self.main_futs.get(rec["session"])
            if f is not None and not txaio.is_called(f):
                if outcome == "M":
                    txaio.resolve(f, None)
                else:
                    txaio.reject(f, RuntimeError("main failed"))
            self.world.settle()
            self._service(rc)
            if not rc.ep.lost:
                rc.lose(True)
            rec["end"] = "main-returned" if outcome == "M" else "main-raised"
        else:
            raise ValueError("unknown outcome %r" % (outcome,))

    # -- the run ---------------------------------------------------------------------------------------------------
    def execute(self):
        logging.disable(logging.CRITICAL)
        contract = install_next_delay_contract()
        ev0, br0 = contract["evaluations"], len(contract["breaches"])
        obs = self.obs
        net = self.net
        self._build()
        with H.DoneTap() as dt, H.JitterTap() as jt:
            obs["t_start"] = net.now()
            f = self.comp.start(net.reactor)
            dt.target = f
            self._tap_done_time(f)
            self.out = Outcome(f)
            self._stop_if(0, "delay")
            steps = 0
            extra_after_cap = 0
            while True:
                steps += 1
                if steps > 400:
                    obs["harness_notes"].append("step limit")
                    break
                self.world.settle()
                self._service_all()
                p = net.take_pending()
                if p is None:
                    n_next = len(net.attempts)
                    if (self.stop_at and obs["stop"] is None and self.stop_at["phase"] == "delay"
                            and self.stop_at["at"] == n_next and self.world.next_deadline() is not None
                            and not self.out.results):
                        self._stop_if(n_next, "delay")
                        continue
                    if not self.world.fire_next_timer():
                        obs["quiescent"] = True
                        break
                    if net.now() > 100000:
                        obs["harness_notes"].append("time horizon")
                        break
                    continue
                if p.n >= self.cap:
                    # end of a capped run: the application stops the component, the network refuses what is in flight
                    obs["capped"] = True
                    extra_after_cap += 1
                    if obs["stop"] is None and not self.out.results:
                        self.stop_at = {"at": p.n, "phase": "inflight", "cap": True}
                    if extra_after_cap > 4:
                        rec = {"n": p.n, "tidx": p.tidx, "t": p.t, "outcome": "R", "joined": False, "hello": False,
                               "end": "left-pending", "t_end": None, "sessions_before": obs["sessions"]}
                        obs["attempts"].append(rec)
                        break
                    self._play(p, "R")
                    continue
                outcome = self.script[p.n] if p.n < len(self.script) else "R"
                self._play(p, outcome)
            self.world.settle()
            obs["t_end"] = net.now()
            obs["start_results"] = [(k, type(v).__name__ if k == "err" else None, str(v)[:120] if k == "err" else None)
                                    for k, v in self.out.results]
            obs["done_calls"] = list(dt.calls)
            obs["jitter_draws"] = len(jt.draws)
            obs["jitter_negative_draws"] = sum(1 for (_m, _s, v) in jt.draws if v < 0)
        for a in obs["attempts"]:
            if a.get("conn") is not None:
                a["conn_lost"] = bool(net.conns[a["conn"]].ep.lost)
        obs["pending_at_end"] = len(net.pending)
        obs["open_conns_at_end"] = sum(1 for rc in net.conns if not rc.ep.lost)
        obs["escaped"] = [repr(e)[:200] for (_w, e) in self.world.escaped]
        obs["negative_delays"] = list(net.negative_delays)
        obs["contract_evaluations"] = contract["evaluations"] - ev0
        obs["breaches"] = list(contract["breaches"][br0:])
        obs["stop_skipped"] = bool(self.case.get("stop")) and (obs["stop"] is None)
        obs["net_events"] = list(net.events)
        # freeze the observation: the teardown below also reaches listeners / the classifier (same list objects)
        frozen = copy.deepcopy(obs)
        # tear down what is still open (not part of any verdict)
        for rc in net.conns:
            try:
                if not rc.ep.lost:
                    rc.teardown()
            except Exception:
                pass
        net.close()
        return frozen


def run_case(case, strict_reactor=True):
    return Run(case, strict_reactor=strict_reactor).execute()
