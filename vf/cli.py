import argparse
import os
import sys

from . import bootstrap  # noqa: F401
from .runner import run_check


def main():
    ap = argparse.ArgumentParser()
    ap.add_argument("prop")
    ap.add_argument("--tier", default=os.environ.get("VERIF_TIER", "quick"), choices=["quick", "thorough"])
    ap.add_argument("--seed", type=int, default=int(os.environ.get("VERIF_SEED", "0")))
    ap.add_argument("--replay")
    ap.add_argument("--jobs", type=int)
    ap.add_argument("--only", help="development aid: run only shards whose name contains this substring (no evidence written)")
    a = ap.parse_args()
    bootstrap.ensure_deps()
    mod = "checks." + a.prop.lower()
    sys.exit(run_check(mod, a.tier, a.seed, a.replay, a.jobs, a.only))


if __name__ == "__main__":
    main()
