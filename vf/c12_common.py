"""Shared helpers of check C12: extension tables, message plans, PMCE object drivers."""

import itertools
import random

from . import c12_ref as R7

DEFLATE, BZIP2, BROTLI = R7.DEFLATE, R7.BZIP2, R7.BROTLI
SHORT = {DEFLATE: "deflate", BZIP2: "bzip2", BROTLI: "brotli"}

B = [False, True]
W0 = [0] + list(range(9, 16))
WN = [None] + list(range(9, 16))
N3 = [None, False, True]
MEM = [None, 1, 9]
L0 = list(range(0, 10))
LN = [None] + list(range(1, 10))

# (offer args) x (offer-accept args) x (response-accept args) per extension
LATTICE = {
    DEFLATE: (list(itertools.product(B, B, B, W0)), list(itertools.product(B, W0, N3, WN, MEM)),
              list(itertools.product(N3, WN, MEM))),
    BZIP2: (list(itertools.product(B, L0)), list(itertools.product(L0, LN)), [(x,) for x in LN]),
    BROTLI: (list(itertools.product(B, B)), list(itertools.product(B, N3)), [(x,) for x in N3]),
}


def classes(ext):
    from autobahn.websocket.compress import PERMESSAGE_COMPRESSION_EXTENSION

    return PERMESSAGE_COMPRESSION_EXTENSION[ext]


def lib_parse_header(header):
    """The library's own header parser (an instance method that does not use ``self``)."""
    from autobahn.websocket.protocol import WebSocketProtocol

    return WebSocketProtocol._parseExtensionsHeader(None, header)


def pmce_key(ext, p):
    if ext == DEFLATE:
        return (p.server_no_context_takeover, p.client_no_context_takeover, p.server_max_window_bits,
                p.client_max_window_bits, p.mem_level)
    if ext == BROTLI:
        return (p.server_no_context_takeover, p.client_no_context_takeover)
    return (p.server_max_compress_level, p.client_max_compress_level)


def eff_dir(ext, S, C, d):
    """(compressor no_context_takeover, decompressor no_context_takeover, compressor window, decompressor window)
    of direction ``d`` read from the two PMCE objects (hook, used for keys and the compatibility invariant)."""
    if ext == BZIP2:
        return (None, None, None, None)
    if d == "s2c":
        cn, dn = S.server_no_context_takeover, C.server_no_context_takeover
        cw, dw = getattr(S, "server_max_window_bits", None), getattr(C, "server_max_window_bits", None)
    else:
        cn, dn = C.client_no_context_takeover, S.client_no_context_takeover
        cw, dw = getattr(C, "client_max_window_bits", None), getattr(S, "client_max_window_bits", None)
    return (bool(cn), bool(dn), cw, dw)


def ctxmode(ext, S, C, d):
    cn, dn, _, _ = eff_dir(ext, S, C, d)
    if cn is None:
        return "stateless"
    return "comp-%s+decomp-%s" % ("reset" if cn else "keep", "reset" if dn else "keep")


class Refused(Exception):
    def __init__(self, stage, exc):
        Exception.__init__(self, "%s: %s" % (stage, exc))
        self.stage = stage


def negotiate_objects(ext, cfg):
    """Run offer -> wire -> offer-accept -> wire -> response-accept through the library's classes and parsers,
    exactly as the two protocols do.  -> dict(ostr, rstr, make_S, make_C) ; raises Refused(stage)."""
    K = classes(ext)
    o_args, a_args, r_args = cfg
    offer = K["Offer"](*o_args)
    ostr = offer.get_extension_string()
    parsed = lib_parse_header(ostr)
    assert len(parsed) == 1 and parsed[0][0] == ext, parsed
    poffer = K["Offer"].parse(parsed[0][1])
    try:
        acc = K["OfferAccept"](poffer, *a_args)
    except Exception as e:
        raise Refused("offer-accept", e)
    rstr = acc.get_extension_string()
    rparsed = lib_parse_header(rstr)
    assert len(rparsed) == 1 and rparsed[0][0] == ext, rparsed
    resp = K["Response"].parse(rparsed[0][1])
    try:
        racc = K["ResponseAccept"](resp, *r_args)
    except Exception as e:
        raise Refused("response-accept", e)
    return {"ostr": ostr, "rstr": rstr,
            "make_S": lambda: K["PMCE"].create_from_offer_accept(True, acc),
            "make_C": lambda: K["PMCE"].create_from_response_accept(False, racc)}


# -------------------------------------------------------------------------------------------------
# messages
# -------------------------------------------------------------------------------------------------

SENT = ("The quick brown fox jumps over the lazy dog – pack my box with five dozen liquor jugs; "
        "sphinx of black quartz, judge my vow. äöü€ ")


def window_ladder(rng):
    """For k = 9..14 a random block of 2^k+100 octets, twice: a compressor with window > 2^k finds the repeat at
    distance 2^k+100, an inflater whose window is <= 2^k cannot resolve it (when fed in small pieces)."""
    parts = []
    for k in range(9, 15):
        b = rng.randbytes((1 << k) + 100)
        parts.append(b + b)
    return b"".join(parts)


def message_plan(rng, tag, scale):
    """~12 tagged messages (cls, payload, is_binary).  scale: 'light' | 'heavy' | 'huge' (1 MiB compressible)."""
    n = [0]

    def t(body, binary=False):
        n[0] += 1
        head = ("<%s#%d>" % (tag, n[0])).encode()
        return head + body

    text = (SENT * 6).encode("utf-8")
    rnd_n = 2048 if scale == "light" else 65536
    big_n = 8192 if scale == "light" else (131072 if scale == "heavy" else 1048576)
    big = ((SENT + "%d ") * 40) % tuple(rng.randrange(100) for _ in range(40))
    big = (big.encode("utf-8") * (big_n // len(big.encode("utf-8")) + 1))[:big_n]
    big = big.decode("utf-8", "ignore").encode("utf-8")
    plan = [
        ("text-first", t(text), False),
        ("empty", b"", rng.random() < 0.5),
        ("one-byte", bytes([rng.randrange(32, 127)]), False),
        ("text-repeat", t(text), False),
        ("random", t(rng.randbytes(rnd_n), True), True),
        ("text-after-random", t(text), False),
        ("empty", b"", True),
        ("empty", b"", False),
        ("compressible-large", t(big), False),
    ]
    if scale != "light":
        plan.append(("window-ladder", t(window_ladder(rng), True), True))
    plan += [
        ("text-after-large", t(text), False),
        ("all-octets", t(bytes(range(256)) * 2, True), True),
        ("text-last", t((SENT * 2)[:150].encode("utf-8")), False),
    ]
    return plan


def chunks_of(data, k):
    if k is None or k <= 0 or len(data) == 0:
        return [data]
    return [data[i:i + k] for i in range(0, len(data), k)]


def lib_compress(p, data, k=None):
    p.start_compress_message()
    out = [p.compress_message_data(c) for c in chunks_of(data, k)]
    out.append(p.end_compress_message())
    return b"".join(out)


def lib_decompress(p, payload, k=None):
    p.start_decompress_message()
    out = [p.decompress_message_data(c) for c in chunks_of(payload, k)]
    p.end_decompress_message()
    return b"".join(out)


def ref_codecs(ext, wire, d, mode="sync", rng=None):
    """(deflater, inflater) an independent RFC-conforming peer would use for direction ``d`` given what is on the
    wire.  For bzip2 every message is a complete bzip2 stream; brotli only when the direction resets its context."""
    if ext == DEFLATE:
        wb = wire["s_wb"] if d == "s2c" else wire["c_wb"]
        nct = wire["s_nct"] if d == "s2c" else wire["c_nct"]
        mem = rng.choice([1, 8, 9]) if rng else 8
        level = rng.choice([-1, 1, 6, 9]) if rng else -1
        if wb <= 8:
            # zlib cannot deflate with a 2^8 window (it would silently use 2^9): the honest pure-Python compressor
            return R7.SmallWindowDeflater(wb, nct), R7.RefInflater(wb, nct, chunk=7)
        return R7.RefDeflater(wb, nct, mode, level, mem), R7.RefInflater(wb, nct)
    if ext == BZIP2:
        import bz2

        class _BzD:
            def deflate(self, data):
                return bz2.compress(data, (wire["s_lvl"] if d == "s2c" else wire["c_lvl"]))

        class _BzI:
            def inflate(self, payload):
                try:
                    return bz2.decompress(payload)
                except Exception as e:
                    raise R7.RefInflateError("not-inflatable", str(e))
        return _BzD(), _BzI()
    if ext == BROTLI:
        import brotli
        nct = wire["s_nct"] if d == "s2c" else wire["c_nct"]
        if not nct:
            return None, None

        class _BrD:
            def deflate(self, data):
                return brotli.compress(data)

        class _BrI:
            def inflate(self, payload):
                try:
                    return brotli.decompress(payload)
                except Exception as e:
                    raise R7.RefInflateError("not-inflatable", str(e))
        return _BrD(), _BrI()
    return None, None


def excname(e):
    return type(e).__name__


def shard_rng(seed, *salt):
    return random.Random("%d/%s" % (seed, "/".join(str(s) for s in salt)))


# -------------------------------------------------------------------------------------------------
# enumeration of the surviving effective-parameter pairs, soundness invariants
# -------------------------------------------------------------------------------------------------

def cfg_tuple(cfg):
    return tuple(tuple(x) for x in cfg)


def with_mem(ext, cfg, smem, cmem):
    """Same negotiation, other zlib memory levels (local compressor tuning, never on the wire)."""
    if ext != DEFLATE:
        return cfg
    o, a, r = cfg
    return (o, tuple(a[:4]) + (smem,), tuple(r[:2]) + (cmem,))


def neg_key(ext, p):
    """Effective NEGOTIATED parameters of a PMCE object (memory level left out)."""
    k = pmce_key(ext, p)
    return k[:4] if ext == DEFLATE else k


def enumerate_pairs(ext):
    """Silent walk over the lattice (deflate: memory levels fixed to None - they influence neither refusals nor
    the negotiated parameters).  -> (pairs {(S neg_key, C neg_key): first cfg}, dirs {(d, eff_dir): first cfg},
    refused {stage: [cfg, ...]})."""
    K = classes(ext)
    O, A, RA = LATTICE[ext]
    if ext == DEFLATE:
        A = [a for a in A if a[4] is None]
        RA = [r for r in RA if r[2] is None]
    pairs, dirs, refused = {}, {}, {"offer-accept": [], "response-accept": []}
    for o in O:
        offer = K["Offer"](*o)
        poffer = K["Offer"].parse(lib_parse_header(offer.get_extension_string())[0][1])
        for a in A:
            try:
                acc = K["OfferAccept"](poffer, *a)
            except Exception:
                refused["offer-accept"].append((o, a, RA[0]))
                continue
            resp = K["Response"].parse(lib_parse_header(acc.get_extension_string())[0][1])
            S = K["PMCE"].create_from_offer_accept(True, acc)
            sk = neg_key(ext, S)
            for r in RA:
                try:
                    racc = K["ResponseAccept"](resp, *r)
                except Exception:
                    refused["response-accept"].append((o, a, r))
                    continue
                C = K["PMCE"].create_from_response_accept(False, racc)
                key = (sk, neg_key(ext, C))
                if key not in pairs:
                    pairs[key] = (o, a, r)
                    for d in ("s2c", "c2s"):
                        dk = (d, eff_dir(ext, S, C, d))
                        if dk not in dirs:
                            dirs[dk] = (o, a, r)
    return pairs, dirs, refused


def effective_problems(ext, wire, S, C):
    """RFC 7692 soundness of what the two ends run, given what went over the wire (``wire`` = c12_ref.wire_params
    of the response).  Parameters that are on the wire bind both ends; local overrides that never reach the wire
    only have to be COMPATIBLE: compressor window <= negotiated <= decompressor window, a direction negotiated
    as no-context-takeover is compressed without context, and a decompressor only drops its context per message
    when the compressor does.  -> [(direction, clause)]"""
    probs = []
    if ext == BZIP2:
        if S.server_max_compress_level > wire["s_lvl"]:
            probs.append(("s2c", "compress-level-exceeds-negotiated"))
        if C.client_max_compress_level > wire["c_lvl"]:
            probs.append(("c2s", "compress-level-exceeds-negotiated"))
        return probs
    for d in ("s2c", "c2s"):
        cn, dn, cw, dw = eff_dir(ext, S, C, d)
        wn = wire["s_nct" if d == "s2c" else "c_nct"]
        if wn and not cn:
            probs.append((d, "negotiated-no-context-takeover-not-honoured-by-compressor"))
        if dn and not cn:
            probs.append((d, "decompressor-drops-context-while-compressor-keeps-it"))
        if ext == DEFLATE:
            ww = wire["s_wb" if d == "s2c" else "c_wb"]
            if cw > ww:
                probs.append((d, "compressor-window-exceeds-negotiated"))
            if dw < ww:
                probs.append((d, "decompressor-window-below-negotiated"))
    return probs


class MixedRefDeflater:
    """c12_ref.RefDeflater whose flush style may change from message to message.  After a BFINAL message the
    DEFLATE stream has ended: compressor and (reference) inflater both start over with an empty window."""

    MODES = ("sync", "stored", "split", "fullflush", "bfinal")

    def __init__(self, de):
        self.de = de
        self.bfinal_seen = False

    def deflate(self, data, mode):
        self.de.mode = mode
        if mode == "stored":
            self.de.c = None            # level 0 is a property of the zlib object: start a new one (a legal choice:
            #                             a compressor may always drop its own context)
        out = self.de.deflate(data)
        if mode in ("bfinal", "stored"):
            self.de.c = None
        if mode == "bfinal":
            self.bfinal_seen = True
        return out


def small_window_plan(rng, tag):
    """Messages for a direction negotiated with a very small window: repeats closer and further than 256 octets,
    inside one message and across messages (context takeover), text, empty, one octet."""
    a, b, c = rng.randbytes(300), rng.randbytes(180), rng.randbytes(700)
    text = (SENT * 3).encode("utf-8")
    n = [0]

    def t(body):
        n[0] += 1
        return ("<%s#%d>" % (tag, n[0])).encode() + body

    return [
        ("text-first", t(text), False),
        ("repeat-at-300", t(a + a), True),
        ("repeat-at-180", t(b + b + b), True),
        ("empty", b"", False),
        ("block-700", t(c), True),
        ("block-700-again", t(c), True),                 # across messages, 700+ octets back
        ("tail-of-previous", t(c[-200:] + b"!" + c[-200:]), True),
        ("one-byte", b"x", False),
        ("text-repeat", t(text), False),
        ("repeat-at-300-again", t(a + b + a + c[:300] + a), True),
        ("all-octets", t(bytes(range(256)) * 3), True),
        ("text-last", t(text[:150]), False),
    ]
