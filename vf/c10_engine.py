"""C10 engine: one scenario = a REAL ApplicationSession with registered endpoints behind one of the
four real client transports, driven by the scripted router of vf.wamp_harness, judged from the wire.

A *case* is a JSON-able dict (sufficient to replay it deterministically)::

    {"transport": "websocket"|"rawsocket", "serializer": "json"|"msgpack"|"cbor"|"ubjson",
     "limit": None | {"exp": 10..24} | {"ws": N},          # size limit the callee's send() must honour
     "traceback_app": bool,
     "procs": [ {"style": "func"|"method"|"coro"|"icb", "det": None|"flag"|"arg:<name>"} , ...],
     "invs":  [ {"proc": pi, "rid": int, "tag": str, "shape": "args"|"kwargs"|"both"|"none",
                 "extra": [...], "kw": {...}, "rp": bool (receive_progress), "caller": {...details...},
                 "plan": {"mode": "sync"|"pending"|"fired", "out": ["ret", kind] | ["raise", kind],
                          "progress": [kind, ...]}} , ...],
     "steps": [ ["feed", [["inv", i] | ["int", i, {options}], ...], seg], ["res", i], ["prog", i, kind], ["adv", dt] ]}

The endpoint code is harness code (it plays the application): it finds the plan of an invocation through the
unique tag the router put into the arguments, reports what it received and behaves as planned.  The verdict is
computed ONLY from (a) the WAMP messages decoded from the octets the real transport wrote and (b) what the
endpoint observed.  A wrapper around ``transport.send`` records the exception classes ``send()`` raised - this is
used to CLASSIFY a violation (key), never to decide it.
"""

import struct

import txaio

from . import c10_enc as X
from .wamp_harness import Outcome, RouterPeer

MISSING = "<missing>"


class Weird:
    """Not serializable by any of the four serializers."""

    def __repr__(self):
        return "<Weird>"


class UnmappedError(Exception):
    pass


# ---------------------------------------------------------------------------------------------------
# router peer with a fast client-frame parser (the reference parser unmasks octet by octet in Python,
# too slow for multi-megabyte results); structure identical to RouterPeer._pull
# ---------------------------------------------------------------------------------------------------

def _fast_unmask(data, key):
    n = len(data)
    if not n:
        return b""
    k = (key * (n // 4 + 1))[:n]
    return (int.from_bytes(data, "big") ^ int.from_bytes(k, "big")).to_bytes(n, "big")


class Peer(RouterPeer):
    def __init__(self, *a, **kw):
        RouterPeer.__init__(self, *a, **kw)
        self.received_meta = []
        self.non_wamp_frames = []
        self.fragmented_msgs = 0          # WebSocket messages the client wrote in more than one frame (reassembled here)
        self.max_frame_payload = 0

    def _pull(self):
        self.world.settle()
        self.inbuf += self.ep.take_output()
        buf = self.inbuf
        if self.kind == "websocket":
            i, n = 0, len(buf)
            while n - i >= 2:
                b0, b1 = buf[i], buf[i + 1]
                fin, opcode, masked, l7 = b0 >> 7, b0 & 0x0F, b1 >> 7, b1 & 0x7F
                j = i + 2
                if l7 == 126:
                    if n - j < 2:
                        break
                    ln = struct.unpack("!H", bytes(buf[j:j + 2]))[0]
                    j += 2
                elif l7 == 127:
                    if n - j < 8:
                        break
                    ln = struct.unpack("!Q", bytes(buf[j:j + 8]))[0]
                    j += 8
                else:
                    ln = l7
                key = None
                if masked:
                    if n - j < 4:
                        break
                    key = bytes(buf[j:j + 4])
                    j += 4
                if n - j < ln:
                    break
                payload = bytes(buf[j:j + ln])
                if masked:
                    payload = _fast_unmask(payload, key)
                i = j + ln
                self.raw_frames.append((opcode, payload if ln < 4096 else payload[:64], masked))
                if opcode in (0, 1, 2):
                    if opcode != 0:
                        self.frag_msg = [opcode, []]
                    if self.frag_msg is None:
                        self.non_wamp_frames.append(("continuation-without-start", ln))
                        continue
                    self.frag_msg[1].append(payload)
                    self.max_frame_payload = max(self.max_frame_payload, ln)
                    if fin:
                        op, chunks = self.frag_msg
                        self.frag_msg = None
                        if len(chunks) > 1:
                            self.fragmented_msgs += 1
                        self._on_wamp_payload(b"".join(chunks), op == 2)
                elif opcode == 8:
                    code = struct.unpack("!H", payload[:2])[0] if len(payload) >= 2 else None
                    self.ws_close_frames.append((code, payload[2:].decode("utf8", "replace")))
            del buf[:i]
        else:
            i, n = 0, len(buf)
            while n - i >= 4:
                ftype = buf[i]
                ln = (buf[i + 1] << 16) | (buf[i + 2] << 8) | buf[i + 3]
                if n - i < 4 + ln:
                    break
                payload = bytes(buf[i + 4:i + 4 + ln])
                i += 4 + ln
                self.raw_frames.append((ftype, payload if ln < 4096 else payload[:64], None))
                if ftype == 0:
                    self._on_wamp_payload(payload, self.binary)
                else:
                    self.non_wamp_frames.append((ftype, ln))
            del buf[:i]


# ---------------------------------------------------------------------------------------------------
# helpers
# ---------------------------------------------------------------------------------------------------

def det_name(det):
    if det is None:
        return None
    if det == "flag":
        return "details"
    return det.split(":", 1)[1]


def proc_uri(pi):
    return "com.c10.p%d" % pi


def classify_exc(e):
    """Category of an exception raised by transport.send() - the two classes the session maps, or what else."""
    from autobahn.exception import PayloadExceededError
    from autobahn.wamp.exception import SerializationError, TransportLost
    if isinstance(e, SerializationError):
        return "SerializationError"
    if isinstance(e, PayloadExceededError):
        return "PayloadExceededError"
    if isinstance(e, TransportLost):
        return "TransportLost"
    if type(e) in (ValueError, TypeError, KeyError, AttributeError, RuntimeError, AssertionError):
        return "unmapped:" + type(e).__name__
    return "unmapped:codec-exception"        # serializer-library specific classes (CBOREncodeError, EncoderException, ...)


def norm_payload(m, at):
    """(args, kwargs) of a wire message whose optional args/kwargs start at index ``at``."""
    args = m[at] if len(m) > at else []
    kwargs = m[at + 1] if len(m) > at + 1 else {}
    if args is None:
        args = []
    if kwargs is None:
        kwargs = {}
    return list(args) if isinstance(args, (list, tuple)) else args, kwargs


def short(o, n=160):
    s = repr(o)
    return s if len(s) <= n else s[:n] + "...(%d chars)" % len(s)


class CaseRun:
    def __init__(self, case, R, fw):
        self.case = case
        self.R = R
        self.fw = fw
        self.invs = case["invs"]
        self.by_tag = {inv["tag"]: i for i, inv in enumerate(self.invs)}
        n = len(self.invs)
        self.calls = [[] for _ in range(n)]           # endpoint observations per invocation
        self.orphans = []                             # endpoint calls that could not be attributed
        self.untagged = {}                            # proc index -> FIFO of inv indices without a tag on the wire
        self.pending = [None] * n                     # future the endpoint is waiting on / returned
        self.progress_fn = [None] * n
        self.progress_ok = [[] for _ in range(n)]     # (args, kwargs) of progress() calls that returned
        self.progress_raised = [[] for _ in range(n)]
        self.progress_late_ok = [0] * n
        self.progress_late = [0] * n                  # progress() calls made by the endpoint after the terminal reply
        self.delivered = [False] * n
        self.delivered_step = [None] * n
        self.racy = [False] * n                       # INTERRUPT in the same read as the INVOCATION
        self.cancelled = [False] * n                  # INTERRUPT delivered while pending (no terminal on the wire)
        self.interrupts = [[] for _ in range(n)]      # classification of every INTERRUPT aimed at it
        self.resolved = [False] * n
        self.skipped = [False] * n
        self.wire = [[] for _ in range(n)]            # ('P'|'Y'|'E', args, kwargs, uri, step, len)
        self.cur_gen = {}                             # rid -> inv index owning it now
        self.unknown = []
        self.other_msgs = []
        self.send_exc = {}                            # inv index -> [category, ...] of non-progress sends (classification only)
        self.send_exc_types = {}
        self.progress_send_exc = []
        self.objs = {}
        self.limit = None
        self.aborted = None
        self.len_mismatch = 0
        self.user_errors = []
        self.reg_outcomes = {}                        # proc index -> Outcome of session.register()
        self.unreg_state = {}                         # proc index -> None (registered) | "requested" | "gone"
        self.unreg_req = {}                           # proc index -> request id of the UNREGISTER on the wire
        self.gone_step = {}                           # proc index -> step at which UNREGISTERED was delivered
        self.res_step = [None] * n                    # step at which the endpoint's pending result was produced
        self.cancel_step = [None] * n
        self.cur_step = -1
        self.unreg_outcomes = []
        self.frame_over_fragsize = None
        self.obj_truth = {}                           # proc index -> current truth value of the registered object
        self.obj_invs = {}                            # proc index -> number of invocations delivered so far
        self.falsy_at_call = [False] * n
        self._big_cache = {}
        self._big_target = {}
        # payload-codec dimension: the session has a key ring (public API set_payload_codec), INVOCATIONs may arrive
        # end-to-end encrypted; the harness is the remote caller and seals / opens payloads with PyNaCl itself
        self.enc = case.get("enc") or None
        self.codec_on = bool(self.enc and self.enc.get("session_codec", True))
        self.codec_at_delivery = [None] * n           # was a payload codec active when the INVOCATION was delivered
        self.codec_at_reply = [None] * n              # ... when the endpoint's outcome was produced / it was cancelled
        self.undeliv = [None] * n                     # reason why the callee cannot decrypt this INVOCATION
        self.keyring = None

    def is_enc(self, i):
        return bool(self.enc and self.invs[i].get("enc"))

    # -- set-up ---------------------------------------------------------------------------------
    def _session_factory(self):
        from autobahn.wamp.protocol import ApplicationSession
        run = self

        class C10Session(ApplicationSession):
            def onUserError(self, fail, msg):      # documented override point; keeps stderr small
                run.user_errors.append(msg[:80])

        def make():
            s = C10Session()
            s.traceback_app = bool(run.case.get("traceback_app"))
            if run.enc and run.enc.get("session_codec", True):
                run.keyring = X.make_keyring(run.enc.get("keys", "default"), run.enc.get("view", "resp"))
                s.set_payload_codec(run.keyring)
            return s
        return make

    def _make_endpoint(self, pi, proc):
        run = self
        style = proc["style"]
        if style in ("func", "method"):
            def ep(*args, **kwargs):
                bound = None
                if style == "method":
                    if args:
                        bound, args = args[0], args[1:]
                    else:
                        bound = MISSING       # not even "self" arrived
                i = run._enter(pi, bound, args, kwargs)
                if i is None:
                    return None
                mode = run.invs[i]["plan"]["mode"]
                if mode == "sync":
                    return run._out(i)
                if mode == "fired":
                    try:
                        v = run._out(i)
                    except Exception as e:
                        return txaio.create_future_error(txaio.create_failure(e))
                    return txaio.create_future_success(v)
                f = txaio.create_future()
                run.pending[i] = ("fut", f)
                return f
            return ep
        if style == "coro":
            async def cep(*args, **kwargs):
                i = run._enter(pi, None, args, kwargs)
                if i is None:
                    return None
                if run.invs[i]["plan"]["mode"] == "pending":
                    w = txaio.create_future()
                    run.pending[i] = ("wait", w)
                    await w
                return run._out(i)
            return cep
        if style == "icb":
            from twisted.internet.defer import Deferred, inlineCallbacks

            @inlineCallbacks
            def iep(*args, **kwargs):
                i = run._enter(pi, None, args, kwargs)
                if i is None:
                    return None
                if run.invs[i]["plan"]["mode"] == "pending":
                    w = Deferred()
                    run.pending[i] = ("wait", w)
                    yield w
                return run._out(i)
            return iep
        raise ValueError(style)

    def _register_all(self, rp):
        from autobahn import wamp
        from autobahn.wamp.types import RegisterOptions

        s = rp.session
        # exception classes known to the session
        @wamp.error("com.c10.decorated")
        class DecoratedError(Exception):
            pass

        class DefinedError(Exception):
            pass
        self.DecoratedError, self.DefinedError = DecoratedError, DefinedError
        s.define(DecoratedError)
        s.define(DefinedError, "com.c10.defined")
        for pi, proc in enumerate(self.case["procs"]):
            det = proc.get("det")
            if det is None:
                opts = None
            elif det == "flag":
                opts = RegisterOptions(details=True)
            else:
                opts = RegisterOptions(details_arg=det_name(det))
            fn = self._make_endpoint(pi, proc)
            if proc["style"] == "method":
                m = wamp.register(proc_uri(pi), options=opts)(fn)
                # the object's truth value is application state: always truthy (plain object), always falsy, or changing
                # between invocations (e.g. an initially filled, later empty container-like service)
                run = self
                members = {"m": m}
                truth = proc.get("truth")
                if truth:
                    self.obj_truth[pi] = truth != "falsy"           # value at registration time
                    if proc.get("via") == "len":
                        members["__len__"] = lambda self_, _pi=pi: 1 if run.obj_truth[_pi] else 0
                    else:
                        members["__bool__"] = lambda self_, _pi=pi: bool(run.obj_truth[_pi])
                obj = type("Obj%d" % pi, (object,), members)()
                self.objs[pi] = obj
                self.reg_outcomes[pi] = Outcome(s.register(obj))
            else:
                self.reg_outcomes[pi] = Outcome(s.register(fn, proc_uri(pi), options=opts))
        reqs = {}
        for m in rp.recv():
            if m and m[0] == 64:
                reqs[m[3]] = m[1]
        for pi in range(len(self.case["procs"])):
            if proc_uri(pi) not in reqs:
                raise RuntimeError("harness: REGISTER for %s not seen: %r" % (proc_uri(pi), rp.received[-5:]))
            rp.send([65, reqs[proc_uri(pi)], 9000 + pi])
        if len(s._registrations) != len(self.case["procs"]):
            raise RuntimeError("harness: registrations not established")

    def _hook_send(self, rp):
        proto = rp.proto
        orig = proto.send
        run = self

        def send(msg):
            try:
                return orig(msg)
            except Exception as e:
                i = run.cur_gen.get(getattr(msg, "request", None))
                if getattr(msg, "progress", None):
                    run.progress_send_exc.append(type(e).__name__)
                else:
                    run.send_exc.setdefault(i, []).append(classify_exc(e))
                    run.send_exc_types.setdefault(i, []).append(type(e).__name__)
                raise
        proto.send = send

    # -- payload construction -------------------------------------------------------------------
    def _fit(self, build, target):
        """n such that len(dumps(build(n, m))) == target for a small m; returns the built object (or None)."""
        dumps = self.rp.dumps
        for m in range(0, 6):
            base = len(dumps(build(0, m)))
            n = target - base
            if n < 0:
                return None
            for _ in range(8):
                ln = len(dumps(build(n, m)))
                if ln == target:
                    return build(n, m)
                n2 = n - (ln - target)
                if n2 < 0 or n2 == n:
                    break
                n = n2
        return None

    def _big_value(self, i, kind, what):
        key = (i, kind, what)
        if key not in self._big_cache:
            v = self._big_value_uncached(i, kind, what)
            if v is None:
                raise RuntimeError("harness: cannot build a %s payload of kind %s for %s" % (what, kind, self.case["serializer"]))
            self._big_cache[key] = v
        return self._big_cache[key]

    def _big_value_uncached(self, i, kind, what):
        """kind = 'big:<delta>' relative to the limit (or absolute size when there is no limit)."""
        rid = self.invs[i]["rid"]
        spec = kind.split(":", 1)[1]
        if self.limit is None:
            target = 70000 if spec in ("+1", "0", "-1", "/2") else 200000
        elif spec == "x2":
            target = self.limit * 2
        elif spec == "/2":
            target = self.limit // 2
        else:
            target = self.limit + int(spec)
        self._big_target[(i, what)] = target
        if what == "yield":
            def build(n, m):
                return [70, rid, {}, ["x" * n] + (["y" * m] if m else [])]
            built = self._fit(build, target)
            return None if built is None else built[3]
        if what == "error":
            def build(n, m):
                return [8, 68, rid, {}, "com.c10.err", ["x" * n] + (["y" * m] if m else [])]
            built = self._fit(build, target)
            return None if built is None else built[5]
        if what == "progress":
            def build(n, m):
                return [70, rid, {"progress": True}, ["x" * n] + (["y" * m] if m else [])]
            built = self._fit(build, target)
            return None if built is None else built[3]

    def _out(self, i):
        """Return the planned value or raise the planned exception (application behaviour)."""
        from autobahn.wamp.exception import ApplicationError
        from autobahn.wamp.types import CallResult

        inv = self.invs[i]
        tag = inv["tag"]
        what, kind = inv["plan"]["out"]
        if what == "ret":
            if kind == "tag":
                return "r:" + tag
            if kind == "none":
                return None
            if kind == "int":
                return 1000003 + i
            if kind == "float":
                return 2.5
            if kind == "bool":
                return False
            if kind == "dict":
                return {"t": tag, "n": [1, 2, {"z": None}]}
            if kind == "list":
                return [tag, 1, [2, 3]]
            if kind == "emptystr":
                return ""
            if kind == "cr":
                return CallResult(1, "r:" + tag, k="v", t=tag)
            if kind == "cr-empty":
                return CallResult()
            if kind == "cr-kw":
                return CallResult(t=tag)
            if kind == "cr-args":
                return CallResult(tag, None, 3)
            if kind == "unser":
                return Weird()
            if kind == "unser-nested":
                return {"a": [1, Weird()]}
            if kind == "unser-cr":
                return CallResult(1, k=Weird())
            if kind == "unser-fn":
                return lambda: None
            if kind == "unser-set":
                return {1, 2, 3}         # refused by json / msgpack / ubjson, carried by cbor (tag 258)
            if kind == "unser-big":
                return [Weird()] * 4000
            if kind.startswith("big:"):
                v = self._big_value(i, kind, "yield")
                return CallResult(*v)
            raise ValueError(kind)
        # raise
        if kind == "app":
            raise ApplicationError("com.c10.err", tag, 7, k=tag)
        if kind == "app-noargs":
            raise ApplicationError("com.c10.err.noargs")
        if kind == "app-unser":
            raise ApplicationError("com.c10.err", tag, Weird())
        if kind == "app-unser-kw":
            raise ApplicationError("com.c10.err", tag, k=Weird())
        if kind == "decorated":
            raise self.DecoratedError(tag)
        if kind == "defined":
            raise self.DefinedError(tag, 1)
        if kind == "unmapped":
            raise ValueError(tag)
        if kind == "unmapped-custom":
            raise UnmappedError(tag)
        if kind == "unmapped-unser":
            raise RuntimeError(tag, Weird())
        if kind == "keyerror":
            raise KeyError(inv["rid"])
        if kind.startswith("big:"):
            v = self._big_value(i, kind, "error")
            raise ApplicationError("com.c10.err", *v)
        if kind.startswith("ubig:"):
            v = self._big_value(i, "big:" + kind.split(":", 1)[1], "error")
            raise RuntimeError(*v)
        raise ValueError(kind)

    def _progress_payload(self, i, kind, seq):
        tag = self.invs[i]["tag"]
        if kind == "tag":
            return ["p:%s:%d" % (tag, seq)], {}
        if kind == "kw":
            return [], {"p": "p:%s:%d" % (tag, seq)}
        if kind == "both":
            return [seq, tag], {"k": seq}
        if kind == "unser":
            return [Weird()], {}
        if kind.startswith("big:"):
            v = self._big_value(i, kind, "progress")
            return (v if v is not None else ["p"]), {}
        raise ValueError(kind)

    def _emit_progress(self, i, kind, late=False):
        prog = self.progress_fn[i]
        if prog is None:
            return False
        seq = len(self.progress_ok[i]) + len(self.progress_raised[i])
        a, k = self._progress_payload(i, kind, seq)
        try:
            prog(*a, **k)
        except Exception as e:
            self.progress_raised[i].append(type(e).__name__)
            self.R.seen("progress_raised", type(e).__name__)
            return False
        if late:
            self.progress_late_ok[i] += 1
        else:
            self.progress_ok[i].append((a, k))
        return True

    # -- the application side: what the endpoint sees -------------------------------------------
    def _enter(self, pi, bound, args, kwargs):
        proc = self.case["procs"][pi]
        dn = det_name(proc.get("det"))
        kw = dict(kwargs)
        det = kw.pop(dn, MISSING) if dn else MISSING
        i = None
        if args and isinstance(args[0], str) and args[0] in self.by_tag:
            i = self.by_tag[args[0]]
        elif isinstance(kw.get("tag"), str) and kw["tag"] in self.by_tag:
            i = self.by_tag[kw["tag"]]
        elif self.untagged.get(pi):
            i = self.untagged[pi].pop(0)
        snap = MISSING
        prog = None
        if det is not MISSING:
            try:
                prog = det.progress
                snap = {"type": type(det).__name__, "caller": det.caller, "caller_authid": det.caller_authid,
                        "caller_authrole": det.caller_authrole, "procedure": det.procedure,
                        "registration": getattr(det.registration, "id", None), "has_progress": prog is not None,
                        "enc_algo": det.enc_algo}
            except Exception as e:
                snap = {"type": type(det).__name__, "error": repr(e)}
        rec = {"pi": pi, "args": list(args), "kwargs": kw, "det": snap,
               "bound_ok": (bound is self.objs.get(pi)) if proc["style"] == "method" else True}
        if i is None:
            self.orphans.append(rec)
            return None
        self.calls[i].append(rec)
        if len(self.calls[i]) > 1:
            return None
        self.progress_fn[i] = prog if callable(prog) else None
        plan_ = self.invs[i]["plan"]
        if plan_.get("progress_unconditional") and plan_.get("progress") and prog is None:
            prog(*self._progress_payload(i, "tag", 0)[0])       # TypeError: 'NoneType' object is not callable
        for pk in self.invs[i]["plan"].get("progress", ()):
            self._emit_progress(i, pk)
        if self.invs[i]["plan"].get("unreg_in_endpoint"):
            self._app_unregister(pi, "in-endpoint")
        return i

    # -- router side ------------------------------------------------------------------------------
    def _inv_message(self, i):
        inv = self.invs[i]
        d = {}
        if inv.get("rp"):
            d["receive_progress"] = True
        elif inv.get("rp_false"):
            d["receive_progress"] = False        # the caller declined explicitly (legal for a dealer to forward)
        d.update(inv.get("caller") or {})
        shape = inv["shape"]
        m = [68, inv["rid"], 9000 + inv["proc"], d]
        if self.is_enc(i):
            a, k = self._clear_payload(i)
            uri = d.get("procedure", proc_uri(inv["proc"]))       # the URI the callee looks its key up with
            how = inv["enc"]
            payload = X.seal(uri, a, k, "%s/%s" % (inv["tag"], inv["rid"]), keyid=1 if how == "wrong-key" else 0)
            if how == "tampered":
                pos = (inv["rid"] % (len(payload) - 24)) + 24
                payload = payload[:pos] + bytes([payload[pos] ^ 0x20]) + payload[pos + 1:]
            elif how == "garbage":
                payload = payload[:17]
            d.update(X.ENC_OPTS)
            m.append(payload)
            return m
        if shape == "args":
            m.append([inv["tag"]] + list(inv.get("extra") or []))
        elif shape == "both":
            m.append([inv["tag"]] + list(inv.get("extra") or []))
            m.append(dict(inv.get("kw") or {}))
        elif shape == "kwargs":
            kw = dict(inv.get("kw") or {})
            kw["tag"] = inv["tag"]
            m.append([])
            m.append(kw)
        elif shape == "none":
            pass
        else:
            raise ValueError(shape)
        return m

    def _clear_payload(self, i):
        """(args | None, kwargs | None) the caller put into an encrypted INVOCATION."""
        inv = self.invs[i]
        shape = inv["shape"]
        if shape == "args":
            return [inv["tag"]] + list(inv.get("extra") or []), None
        if shape == "both":
            return [inv["tag"]] + list(inv.get("extra") or []), dict(inv.get("kw") or {})
        if shape == "kwargs":
            kw = dict(inv.get("kw") or {})
            kw["tag"] = inv["tag"]
            return [], kw
        if shape == "none":
            return None, None
        raise ValueError(shape)

    def _sent_payload(self, i):
        if self.is_enc(i):
            a, k = self._clear_payload(i)
            return X.json_roundtrip(a or []), X.json_roundtrip(k or {})
        m = self._inv_message(i)
        a, k = norm_payload(m, 4)
        return self.rp.loads(self.rp.dumps(a)), self.rp.loads(self.rp.dumps(k))

    def _roundtrip(self, i, o):
        """A reply value as the remote caller decodes it: through the inner JSON of the cryptobox when the reply to
        this invocation is encrypted, through the transport's serializer otherwise."""
        if self.is_enc(i):
            return X.json_roundtrip(o)
        return self.rp.loads(self.rp.dumps(o))

    def _terminal_seen(self, i):
        return sum(1 for w in self.wire[i] if w[0] in "YE")

    def _collect(self, step):
        rp = self.rp
        n0 = len(rp.received)
        rp.recv()
        for j in range(n0, len(rp.received)):
            m = rp.received[j]
            ln = rp.received_meta[j]["len"]
            if self.limit is not None and ln > self.limit:
                self.oversized_written.append((m[0] if m else None, ln))
            if not isinstance(m, list) or not m:
                self.other_msgs.append(("malformed", short(m)))
                continue
            if m[0] == "UNDECODABLE":
                self.other_msgs.append(("undecodable", short(m)))
                continue
            if m[0] == 70 and len(m) >= 3:
                rid, opts = m[1], m[2] if isinstance(m[2], dict) else {}
                a, k, sealed = self._reply_payload(m, 3, opts)
                rec = ("P" if opts.get("progress") else "Y", a, k, None, step, ln, sealed)
            elif m[0] == 8 and len(m) >= 5 and m[1] == 68:
                rid = m[2]
                a, k, sealed = self._reply_payload(m, 5, m[3] if isinstance(m[3], dict) else {})
                rec = ("E", a, k, m[4], step, ln, sealed)
            elif m[0] == 66 and len(m) == 3 and isinstance(m[2], int) and self.unreg_state.get(m[2] - 9000) == "requested" \
                    and (m[2] - 9000) not in self.unreg_req:
                self.unreg_req[m[2] - 9000] = m[1]
                continue
            else:
                self.other_msgs.append((m[0], short(m)))
                continue
            i = self.cur_gen.get(rid)
            if i is None:
                self.unknown.append((rid, rec[0], step))
            else:
                self.wire[i].append(rec)

    def _reply_payload(self, m, at, opts):
        """(args, kwargs, sealed) of a YIELD / ERROR; sealed: None = clear, 'opened' = cryptobox payload opened with the
        harness' own key material, 'unopenable: ..' = announced as encrypted but PyNaCl cannot open it."""
        if not opts.get("enc_algo"):
            a, k = norm_payload(m, at)
            return a, k, None
        self.R.count("enc_replies_seen")
        try:
            if opts.get("enc_algo") != "cryptobox" or opts.get("enc_serializer") not in (None, "json"):
                raise ValueError("enc_algo=%r enc_serializer=%r" % (opts.get("enc_algo"), opts.get("enc_serializer")))
            if len(m) != at + 1 or not isinstance(m[at], (bytes, bytearray)):
                raise ValueError("payload is not one binary")
            _uri, a, k = X.open_(m[at])
        except Exception as e:
            return short(m[at:], 60), {}, "unopenable: %s" % type(e).__name__
        if a is None:
            a = []
        if k is None:
            k = {}
        return a, k, "opened"

    def _do_feed(self, si, items, seg):
        rp = self.rp
        chunks = []
        in_this_feed = set()
        for it in items:
            if it[0] == "unregd":
                pi, how = it[1], it[2]
                if self.unreg_state.get(pi) != "requested" or pi not in self.unreg_req:
                    continue
                req = self.unreg_req.pop(pi)
                if how == "ok":
                    chunks.append(rp.encode([67, req]))
                    self.unreg_state[pi] = "gone"
                    self.gone_step[pi] = si
                    self.R.count("unregistered_delivered")
                else:
                    chunks.append(rp.encode([8, 66, req, {}, "wamp.error.no_such_registration"]))
                    self.unreg_state[pi] = None
                    self.R.count("unregister_refused")
                continue
            if it[0] == "inv":
                i = it[1]
                inv = self.invs[i]
                if self.unreg_state.get(inv["proc"]) == "gone":
                    self.skipped[i] = True     # a conforming router sends no INVOCATION after its UNREGISTERED
                    continue
                if self.unreg_state.get(inv["proc"]) == "requested":
                    self.R.count("inv_between_unregister_and_reply")
                prev = self.cur_gen.get(inv["rid"])
                if prev is not None and prev != i:
                    # request-id reuse: only legitimate once the earlier invocation is complete on the wire
                    if self._terminal_seen(prev) != 1 or prev in in_this_feed:
                        self.skipped[i] = True
                        continue
                    self.R.count("rid_reused")
                self.cur_gen[inv["rid"]] = i
                self.delivered[i] = True
                self.delivered_step[i] = si
                in_this_feed.add(i)
                self.codec_at_delivery[i] = self.codec_on
                if inv["plan"]["mode"] != "pending":
                    self.codec_at_reply[i] = self.codec_on
                if self.is_enc(i):
                    self.R.count("enc_invocations_delivered")
                    if not self.codec_on:
                        self.undeliv[i] = "no-codec"
                    elif inv["enc"] != "ok":
                        self.undeliv[i] = inv["enc"]
                if inv["shape"] == "none" and not self.undeliv[i]:
                    self.untagged.setdefault(inv["proc"], []).append(i)
                pi_ = inv["proc"]
                truth = self.case["procs"][pi_].get("truth")
                if truth:
                    k = self.obj_invs.get(pi_, 0)
                    self.obj_invs[pi_] = k + 1
                    # "late-falsy": truthy when registered, falsy from the first invocation on; "toggle": F, T, F, ...
                    self.obj_truth[pi_] = {"truthy": True, "falsy": False, "late-falsy": False, "toggle": k % 2 == 1}[truth]
                    self.falsy_at_call[i] = not self.obj_truth[pi_]
                chunks.append(rp.encode(self._inv_message(i)))
            elif it[0] == "int":
                i = it[1]
                if self.skipped[i]:
                    continue
                inv = self.invs[i]
                owner = self.cur_gen.get(inv["rid"])
                if owner is not None and owner != i:
                    continue    # the id is owned by another generation of a reused request id: not what this step means
                if not self.delivered[i]:
                    point = "before-invocation"
                elif i in in_this_feed:
                    point = "same-read"
                    self.racy[i] = True
                elif self.cancelled[i]:
                    point = "second-interrupt"
                elif (inv["plan"]["mode"] == "pending" and not self.resolved[i] and not self.racy[i]
                      and self.pending[i] is not None):
                    point = "while-pending"
                    self.cancelled[i] = True
                    self.cancel_step[i] = si
                    self.codec_at_reply[i] = self.codec_on
                else:
                    point = "after-completion"
                self.interrupts[i].append(point)
                self.R.count("interrupt_" + point)
                chunks.append(rp.encode([69, inv["rid"], dict(it[2] if len(it) > 2 and it[2] else {})]))
        data = b"".join(chunks)
        if not data:
            return
        if seg == "bytewise" and len(data) <= 400:
            parts = [data[j:j + 1] for j in range(len(data))]
        elif isinstance(seg, list):
            cuts = sorted(set(c % len(data) for c in seg))
            parts, prev = [], 0
            for c in cuts + [len(data)]:
                if c > prev:
                    parts.append(data[prev:c])
                    prev = c
        else:
            parts = [data]
        for p in parts:
            rp.ep.feed(p)
        rp.world.settle()

    def _app_unregister(self, pi, where):
        """The application calls Registration.unregister() (public API)."""
        if self.unreg_state.get(pi) is not None:
            return
        oc = self.reg_outcomes.get(pi)
        if not oc or not oc.results or oc.results[0][0] != "ok":
            return
        reg = oc.results[0][1]
        if isinstance(reg, (list, tuple)):      # register(obj) resolves to a list (Twisted: of (success, value) pairs)
            reg = reg[0]
            if isinstance(reg, tuple):
                reg = reg[1]
        fut = reg.unregister()
        self.unreg_outcomes.append(Outcome(fut))      # consumes a failure (ERROR reply) like an application would
        self.unreg_state[pi] = "requested"
        self.R.count("unregister_requests")
        self.R.seen("unregister_points", where)

    def _do_res(self, i):
        p = self.pending[i]
        if p is None or self.resolved[i]:
            return
        self.resolved[i] = True
        self.res_step[i] = self.cur_step
        if not self.cancelled[i]:
            self.codec_at_reply[i] = self.codec_on
        kind, f = p
        if self.fw == "tx":
            if f.called:
                # cancelled by INTERRUPT (Deferred.cancel fired it): a real endpoint's late callback() is
                # swallowed once by Twisted; nothing to do
                return
        else:
            if f.done():
                return
        if kind == "wait":
            txaio.resolve(f, None)
        else:
            try:
                v = self._out(i)
            except Exception as e:
                txaio.reject(f, e)
            else:
                txaio.resolve(f, v)
        self.rp.world.settle()

    # -- run --------------------------------------------------------------------------------------
    def run(self):
        case = self.case
        lim = case.get("limit")
        kw = {}
        if case["transport"] == "rawsocket":
            exp = lim["exp"] if lim else 24
            kw["router_max_len_exp"] = exp
            self.limit = 2 ** exp
        elif lim and (lim.get("ws") or lim.get("frag")):
            kw["ws_options"] = {}
            if lim.get("ws"):
                kw["ws_options"]["maxMessagePayloadSize"] = lim["ws"]
                self.limit = lim["ws"]          # applies to the whole (reassembled) message, fragmented or not
            if lim.get("frag"):
                kw["ws_options"]["autoFragmentSize"] = lim["frag"]
        self.oversized_written = []
        rp = self.rp = Peer(self._session_factory(), transport=case["transport"], serializer=case["serializer"], **kw)
        try:
            rp.join()
            if rp.session is None or rp.session._session_id is None:
                raise RuntimeError("harness: session did not join (%r)" % (rp.received[-3:],))
            self._register_all(rp)
            self._hook_send(rp)
            self.n_setup = len(rp.received)
            for si, st in enumerate(case["steps"]):
                if self._aborted():
                    break
                op = st[0]
                self.cur_step = si
                if op == "unreg":
                    self._app_unregister(st[1], "application")
                elif op == "unregd":
                    self._do_feed(si, [st], None)
                elif op == "feed":
                    self._do_feed(si, st[1], st[2] if len(st) > 2 else None)
                elif op == "res":
                    self._do_res(st[1])
                elif op == "prog":
                    i = st[1]
                    if self.cur_gen.get(self.invs[i]["rid"]) != i:
                        pass      # its request id now belongs to a later invocation: attribution would be ambiguous
                    elif self.progress_fn[i] is not None and self.calls[i]:
                        late = self._terminal_seen(i) > 0
                        if late:
                            self.progress_late[i] += 1
                            self.R.count("late_progress_calls")
                        self._emit_progress(i, st[2], late)
                elif op == "codec":
                    # the application removes / re-installs its payload codec (public API) while calls are in flight
                    if self.enc and self.keyring is not None:
                        on = st[1] == "on"
                        rp.session.set_payload_codec(self.keyring if on else None)
                        if on != self.codec_on:
                            self.R.count("codec_switched")
                        self.codec_on = on
                elif op == "adv":
                    rp.world.advance(st[1])
                rp.world.settle()
                self._collect(si)
            rp.world.advance(0.5)
            self._collect(len(case["steps"]))
            self._aborted()
            self.escaped = [repr(e)[:200] for e in rp.world.escaped]
            if rp.fragmented_msgs:
                self.R.count("ws_fragmented_messages", rp.fragmented_msgs)
            if lim and lim.get("frag") and case["transport"] == "websocket":
                self.R.count("autofragment_cases")
                if rp.max_frame_payload > lim["frag"]:
                    self.frame_over_fragsize = (rp.max_frame_payload, lim["frag"])
        finally:
            try:
                rp.teardown()
            except Exception:
                pass
            rp.close_world()
            # break reference cycles through closures early (many cases per process)
            self.progress_fn = [None] * len(self.invs)
        return self.judge()

    def _aborted(self):
        if self.aborted:
            return True
        ep = self.rp.ep
        if ep.lost or ep.close_requested:
            self.aborted = "transport-%s" % (ep.close_requested or "lost")
            return True
        for t, s in self.other_msgs:
            if t in (3, 6):
                self.aborted = "abort-message" if t == 3 else "goodbye-message"
                return True
        return False

    # -- oracle -------------------------------------------------------------------------------------
    def entry_raises(self, i):
        """The endpoint uses details.progress unconditionally although the caller did not ask for progress."""
        inv = self.invs[i]
        plan = inv["plan"]
        return bool(plan.get("progress_unconditional") and plan.get("progress") and not inv.get("rp")
                    and self.case["procs"][inv["proc"]].get("det") is not None)

    def _raw_result(self, i):
        """(args, kwargs | None) exactly as the session hands the endpoint's result to the payload codec."""
        from autobahn.wamp.types import CallResult
        v = self._out(i)
        if isinstance(v, CallResult):
            return list(v.results), dict(v.kwresults)
        return [v], None

    def _enc_wire_len(self, i):
        """Predicted wire length of the encrypted YIELD for invocation i (plain codec arithmetic + box overhead)."""
        inv = self.invs[i]
        a, k = self._raw_result(i)
        uri = (inv.get("caller") or {}).get("procedure", proc_uri(inv["proc"]))
        n = len(X.inner_dumps(uri, a, k)) + X.OVERHEAD
        return len(self.rp.dumps([70, inv["rid"], dict(X.ENC_OPTS), b"\x00" * n]))

    def enc_class(self, i):
        """Behaviour class of an END-TO-END ENCRYPTED invocation (the session has, had or lacks a payload codec)."""
        inv = self.invs[i]
        what, kind = inv["plan"]["out"]
        if self.undeliv[i]:
            return "enc-undecryptable"
        if self.entry_raises(i):
            return "enc-error"
        if what == "raise":
            return "enc-error-unserializable" if kind in ("app-unser", "app-unser-kw", "unmapped-unser") else "enc-error"
        if self.codec_at_reply[i] is False:
            return "enc-result-codec-removed"
        try:
            a, k = self._raw_result(i)
        except Exception:
            return "enc-error"
        try:
            X.json_roundtrip([a, k])
        except Exception:
            try:
                self.rp.dumps([a, k])
            except Exception:
                return "enc-result-unencryptable"
            return "enc-result-clear-only"      # the transport's serializer could carry it in clear
        if self.limit is not None:
            ln = self._enc_wire_len(i)
            if ln > self.limit + 16:
                return "enc-result-oversized"
            if ln >= self.limit - 16:
                return "enc-result-near-limit"
        return "enc-result"

    def inv_class(self, i):
        """Behaviour class of an invocation as PLANNED + the size arithmetic of the plain codec."""
        inv = self.invs[i]
        what, kind = inv["plan"]["out"]
        if self.is_enc(i):
            return self.enc_class(i)
        if self.entry_raises(i):
            return "error-with-traceback" if (self.case.get("traceback_app") and self.limit is not None and self.limit <= 4096) else "error"
        if what == "ret":
            if kind == "unser-big":
                return "result-unser-bigrepr"
            if kind == "unser-set":
                try:
                    self.rp.dumps([{1, 2, 3}])
                except Exception:
                    return "result-unserializable"
                return "result"
            if kind.startswith("unser"):
                return "result-unserializable"
            if kind.startswith("big:"):
                if self.limit is None:
                    return "result-large-unlimited"
                spec = kind.split(":", 1)[1]
                if spec == "/2":
                    return "result-fits-limit"
                return "result-oversized" if spec in ("x2",) or int(spec) > 0 else "result-fits-limit"
            return "result"
        if kind in ("app-unser", "app-unser-kw", "unmapped-unser"):
            return "error-unserializable"
        if self.case.get("traceback_app") and self.limit is not None and (self.limit <= 4096 or kind.startswith(("big:", "ubig:"))):
            return "error-with-traceback"      # size of the ERROR depends on the formatted traceback
        if kind.startswith("big:") or kind.startswith("ubig:"):
            if self.limit is None:
                return "error"
            spec = kind.split(":", 1)[1]
            return "error-oversized" if spec in ("x2",) or int(spec) > 0 else "error"
        return "error"

    def expected_yield(self, i):
        """(args, kwargs) a terminal YIELD must carry, as the plain codec round-trips them."""
        from autobahn.wamp.types import CallResult
        try:
            v = self._out(i)
        except Exception:
            return None
        if isinstance(v, CallResult):
            a, k = list(v.results), dict(v.kwresults)
        else:
            a, k = [v], {}
        if self.invs[i]["plan"]["out"][1].startswith("big:"):
            return a, k          # plain ASCII strings: identical after any codec round trip
        try:
            return self.rp.loads(self.rp.dumps(a)), self.rp.loads(self.rp.dumps(k))
        except Exception:
            return None

    def expected_yield_sealed(self, i):
        """(args, kwargs) an ENCRYPTED terminal YIELD must carry once opened (inner serialization is JSON)."""
        try:
            a, k = self._raw_result(i)
            return X.json_roundtrip(a), X.json_roundtrip(k or {})
        except Exception:
            return None

    def judge(self):
        R = self.R
        case = self.case
        tk = "%s-%s" % (self.fw, case["transport"])
        viol = []

        def V(clause, cause, what, i=None, chain=None, fold_transport=False):
            if fold_transport:
                key = "C10/%s/%s" % (clause, cause)
            else:
                key = "C10/%s/%s/%s/%s" % (clause, cause, tk, chain or "send-ok")
            d = {"fw": self.fw, "transport": case["transport"], "serializer": case["serializer"],
                 "limit": case.get("limit")}
            if i is not None:
                inv = self.invs[i]
                d.update({"inv": i, "rid": inv["rid"], "plan": inv["plan"], "proc": case["procs"][inv["proc"]],
                          "class": self.inv_class(i), "interrupts": self.interrupts[i],
                          "wire": [(w[0], short(w[1], 80), short(w[2], 80), w[3], w[4], w[5], w[6]) for w in self.wire[i][:8]],
                          "enc": inv.get("enc"), "enc_config": self.enc, "undecryptable": self.undeliv[i],
                          "codec_at_reply": self.codec_at_reply[i],
                          "send_raised": self.send_exc_types.get(i),
                          "progress_raised": self.progress_raised[i]})
            d["escaped"] = getattr(self, "escaped", [])[:3]
            viol.append((key, what, d))

        judged = 0
        if self.aborted:
            R.count("callee_aborted_cases")
            last = "conforming-conversation"
            V("callee-aborted-session", last, "the callee closed the session/transport (%s) although the router only sent "
              "conforming REGISTERED/INVOCATION/INTERRUPT messages; other messages: %r" % (self.aborted, self.other_msgs[:3]))
        for t, s in self.other_msgs:
            if t == "undecodable" or t == "malformed":
                V("undecodable-message", "wire", "the transport wrote a WAMP payload the plain codec cannot decode: %s" % s)
            elif t not in (3, 6):
                V("unexpected-message", "type-%s" % t, "unexpected message from the callee: %s" % s, fold_transport=True)
        for ft, ln in self.rp.non_wamp_frames[:1]:
            V("undecodable-message", "non-wamp-frame", "the transport wrote a non-WAMP frame (%r, %d octets)" % (ft, ln))
        for rid, typ, step in self.unknown:
            V("reply-for-unknown-request", "yield" if typ in "PY" else "error",
              "reply with request id %r that no INVOCATION carried" % rid)
        for t, ln in self.oversized_written[:1]:
            V("oversized-message-sent", "type-%s" % t, "the transport wrote a %d octet message although the limit is %d" % (
                ln, self.limit))
            R.count("oversized_written")
        for o in self.orphans:
            V("endpoint-args-mismatch", "unattributable-call", "an endpoint was invoked with arguments that match no "
              "INVOCATION: args=%s kwargs=%s" % (short(o["args"]), short(o["kwargs"])), fold_transport=True)

        for i, inv in enumerate(self.invs):
            if not self.delivered[i] or self.skipped[i]:
                if self.wire[i]:
                    V("reply-for-unknown-request", "never-invoked", "reply for an INVOCATION that was never delivered", i)
                continue
            if self.aborted:
                continue      # "as long as the transport stays up": obligations lapse (the abort itself is reported)
            judged += 1
            R.count("invocations_judged")
            cls = self.inv_class(i)
            R.seen("classes", cls)
            lim_ = case.get("limit") or {}
            if lim_.get("frag") and lim_.get("ws") and cls in ("result-oversized", "error-oversized", "result-fits-limit"):
                R.count("autofragment_limit_judged")
                if cls != "result-fits-limit":
                    R.count("autofragment_oversized_judged")
                f_, n_ = lim_["frag"], lim_["ws"]
                R.seen("autofragment_relation", "%s/%s" % ("tiny" if f_ * 8 <= n_ else "below" if f_ < n_ else "equal" if f_ == n_ else "above", cls))
            plan = inv["plan"]
            chain = ">".join(self.send_exc.get(i, [])) or None
            if chain:
                R.seen("send_failure_chains", "%s/%s" % (tk, chain))
            # the reply has to pass the session's payload codec before it reaches send(): when the key ring cannot
            # encode it, that - not a race or an unregistration - is the mechanism a missing / doubled reply is keyed by
            codec_fail = bool(self.enc and ((self.codec_at_reply[i] and cls in (
                "enc-error-unserializable", "error-unserializable", "enc-result-unencryptable", "enc-result-clear-only"))
                or cls in ("enc-result-codec-removed", "enc-undecryptable")))
            kcls = ("keyring-session-" + cls) if (self.enc and not self.is_enc(i) and self.codec_at_reply[i]) else cls
            seq = self.wire[i]
            terms = [w for w in seq if w[0] in "YE"]
            progs = [w for w in seq if w[0] == "P"]
            ncalls = len(self.calls[i])
            enc_i = self.is_enc(i)
            undeliv = bool(self.undeliv[i])
            if self.enc:
                R.seen("enc_config", "%s/%s/%s" % (self.enc.get("keys", "default"), self.enc.get("view", "resp"),
                                                   "codec" if self.enc.get("session_codec", True) else "no-codec"))
                if enc_i:
                    R.count("enc_invocations_judged")
                    R.seen("enc_classes", cls)
                    R.seen("enc_modes", "%s/%s" % (plan["mode"], plan["out"][0]))
                else:
                    R.count("keyring_session_plain_invocations")
            completed = plan["mode"] != "pending" or self.resolved[i] or self.entry_raises(i) or undeliv
            # ---- which terminal reply is due
            if self.cancelled[i]:
                cause, want_n, want = "interrupt-while-pending", 1, "E"
            elif self.racy[i]:
                # when send() failed the mechanism is the planned behaviour, not the race
                cause, want_n, want = (kcls if (chain or codec_fail) else "interrupt-same-read"), 1, "either"
            elif not completed:
                cause, want_n, want = "still-pending", 0, None
            else:
                cause, want_n = cls, 1
                want = "Y" if cls in ("result", "result-fits-limit", "result-large-unlimited", "enc-result") else "E"
                if cls in ("enc-result-clear-only", "enc-result-codec-removed", "enc-result-near-limit"):
                    # the statement demands exactly one terminal reply; whether the session fails the call or lets the
                    # transport carry the value is C20's business (confidentiality), not decided here
                    want = "either"
                cause = kcls      # "keyring-session-..": a clear invocation served by a session that holds a key ring
            if any(p == "before-invocation" for p in self.interrupts[i]) and cause == cls:
                R.count("interrupt_before_then_normal")
            gone = self.gone_step.get(inv["proc"])
            due = self.cancel_step[i] if self.cancelled[i] else (self.res_step[i] if plan["mode"] == "pending" else None)
            across = gone is not None and want_n == 1 and due is not None and self.delivered_step[i] <= gone < due
            if across:
                R.count("replies_due_after_unregistered")
                R.seen("unregistered_across", "%s/%s" % (plan["out"][0], "cancel" if self.cancelled[i] else "resolve"))
                if not chain and not codec_fail:
                    cause = "unregistered-while-pending"
            mode_cause = cause
            # ---- endpoint call count
            R.count("endpoint_calls_checked")
            if ncalls > 1:
                V("endpoint-call-count", "invoked-%d-times" % min(ncalls, 3), "endpoint invoked %d times for one INVOCATION" % ncalls, i,
                  fold_transport=True)
            elif ncalls == 0 and undeliv:
                R.count("enc_undecryptable_not_invoked")       # nothing to invoke the endpoint with: the ERROR is the reply
            elif ncalls == 0 and not self.racy[i]:
                V("endpoint-call-count", "not-invoked", "endpoint never invoked for a delivered INVOCATION", i, fold_transport=True)
            # ---- R1 exactly one terminal reply
            if want_n == 1 and ncalls == 0 and self.racy[i] and len(terms) == 1 and terms[0][0] == "E":
                R.count("cancelled_before_start")
            if len(terms) != want_n:
                if want_n == 0:
                    V("premature-reply", mode_cause, "terminal reply although the endpoint's result is still pending", i, chain)
                elif len(terms) == 0:
                    V("no-terminal-reply", mode_cause, "no terminal reply (YIELD without progress / ERROR) for request %d; "
                      "send() raised: %s" % (inv["rid"], self.send_exc_types.get(i)), i, chain)
                else:
                    V("duplicate-terminal-reply", mode_cause, "%d terminal replies for request %d" % (len(terms), inv["rid"]), i, chain)
            elif want_n == 1:
                t = terms[0]
                R.count("terminal_yield" if t[0] == "Y" else "terminal_error")
                if t[0] == "E":
                    R.seen("error_uris", str(t[3]))
                if want != "either" and t[0] != want:
                    V("wrong-terminal-type", mode_cause, "expected %s, the wire shows %s (%s)" % (
                        {"Y": "a YIELD", "E": "an ERROR"}[want], {"Y": "a YIELD", "E": "an ERROR"}[t[0]], t[3]), i, chain)
                elif t[0] == "Y" and t[6] is not None and t[6] != "opened":
                    V("wrong-result-payload", "encrypted-yield-unopenable", "the YIELD announces an encrypted payload that the "
                      "caller's key cannot open (%s): it does not carry the endpoint's value" % t[6], i, fold_transport=True)
                elif t[0] == "Y":
                    exp = self.expected_yield_sealed(i) if t[6] == "opened" else self.expected_yield(i)
                    R.count("yield_payload_compared")
                    if t[6] == "opened":
                        R.count("enc_yield_opened_compared")
                    elif enc_i:
                        R.count("enc_invocation_answered_in_clear")      # reported by C20, not a C10 clause
                    if exp is None:
                        V("wrong-terminal-type", mode_cause, "YIELD for a result the plain codec cannot encode", i, chain)
                    elif (t[1], t[2]) != exp:
                        V("wrong-result-payload", cls, "YIELD carries args=%s kwargs=%s, endpoint returned args=%s kwargs=%s" % (
                            short(t[1]), short(t[2]), short(exp[0]), short(exp[1])), i, fold_transport=True)
                    elif cls in ("result-fits-limit", "result-large-unlimited"):
                        R.count("limit_boundary_yield")
                        pred = self._big_target.get((i, "yield"))
                        if pred != t[5]:
                            self.len_mismatch += 1
                            R.count("length_prediction_mismatch")
                        else:
                            R.count("length_prediction_exact")
                if cls in ("result-oversized", "error-oversized") and t[0] == "E" and mode_cause == cls:
                    R.count("oversized_mapped_to_error")
                if cls.endswith("unserializable") and t[0] == "E" and mode_cause == cls:
                    R.count("unserializable_mapped_to_error")
                if cause == "interrupt-while-pending":
                    R.count("cancel_error_seen")
                    if enc_i:
                        R.count("enc_cancel_error_seen")
                if enc_i and t[0] == "E":
                    R.count("enc_error_replies")
                    R.seen("enc_error_uris", str(t[3]).replace("wamp.error.", "w.e."))
                    if t[6] == "opened":
                        R.count("enc_error_opened")
                    if cls in ("enc-result-unencryptable", "enc-result-clear-only") and mode_cause == cls:
                        R.count("enc_unencryptable_mapped_to_error")
                    if cls == "enc-undecryptable":
                        R.count("enc_undecryptable_mapped_to_error")
                        R.seen("enc_undecryptable_reasons", str(self.undeliv[i]))
                    if cls == "enc-result-codec-removed" and mode_cause == cls:
                        R.count("enc_codec_removed_judged")
                    if cls == "enc-result-oversized" and mode_cause == cls:
                        R.count("enc_oversized_mapped_to_error")
                if self.enc and not enc_i and t[0] == "E" and t[6] == "opened":
                    R.count("keyring_session_error_opened")
            else:
                R.count("pending_silent_checked")
            # ---- R2 progress discipline
            if progs:
                R.count("progress_yields_seen", len(progs))
            if progs and not inv.get("rp"):
                V("progress-without-receive_progress", "yield-progress", "progressive YIELD although the INVOCATION did not "
                  "carry receive_progress", i, fold_transport=True)
            seen_term = False
            for w in seq:
                if w[0] in "YE":
                    seen_term = True
                elif seen_term:
                    interrupted = self.cancelled[i] or (self.racy[i] and plan["mode"] == "pending" and terms and terms[0][0] == "E")
                    after = "after-interrupt" if interrupted else ("after-own-reply" if self.progress_late[i] else "after-terminal")
                    V("progress-after-terminal", after, "progressive YIELD written after the terminal reply of request %d" % inv["rid"], i,
                      fold_transport=True)
                    break
            got = []
            for w in seq:
                if w[0] in "YE":
                    break
                got.append((w[1], w[2]))
            sealed_p = [w[6] for w in seq if w[0] == "P"]
            if any(x is not None and x != "opened" for x in sealed_p):
                V("progress-mismatch", "encrypted-progress-unopenable", "a progressive YIELD announces an encrypted payload "
                  "that the caller's key cannot open", i, fold_transport=True)
            if "opened" in sealed_p:
                R.count("enc_progress_opened", sealed_p.count("opened"))
            try:
                if "opened" in sealed_p:
                    exp_p = [(X.json_roundtrip(list(a)), X.json_roundtrip(k)) for a, k in self.progress_ok[i]]
                else:
                    exp_p = [(self.rp.loads(self.rp.dumps(a)), self.rp.loads(self.rp.dumps(k))) for a, k in self.progress_ok[i]]
            except Exception:
                exp_p = None
            if exp_p is not None and (self.progress_ok[i] or got):
                R.count("progress_sequences_compared")
                if got != exp_p:
                    V("progress-mismatch", "sequence", "progressive YIELDs on the wire %s differ from the endpoint's successful "
                      "progress() calls %s" % (short(got), short(exp_p)), i, fold_transport=True)
            # ---- R4 arguments and details
            if ncalls >= 1:
                rec = self.calls[i][0]
                sa, sk = self._sent_payload(i)
                R.count("endpoint_args_compared")
                if case["procs"][inv["proc"]]["style"] == "method":
                    R.count("bound_object_compared")
                    R.seen("object_truth", "%s/%s" % (case["procs"][inv["proc"]].get("truth") or "plain", "falsy" if self.falsy_at_call[i] else "truthy"))
                    if self.falsy_at_call[i]:
                        R.count("falsy_object_invocations")
                if rec["args"] != sa or not rec["bound_ok"]:
                    V("endpoint-args-mismatch", "positional", "endpoint got args=%s, caller sent %s (bound object ok: %s)" % (
                        short(rec["args"]), short(sa), rec["bound_ok"]), i, fold_transport=True)
                if rec["kwargs"] != sk:
                    V("endpoint-args-mismatch", "keyword", "endpoint got kwargs=%s, caller sent %s" % (
                        short(rec["kwargs"]), short(sk)), i, fold_transport=True)
                proc = case["procs"][inv["proc"]]
                if proc.get("det") is not None:
                    R.count("details_compared")
                    if inv.get("rp_false") and not inv.get("rp"):
                        R.count("explicit_false_receive_progress_checked")
                        if plan.get("progress"):
                            R.count("explicit_false_progressive_endpoint")
                            R.seen("progress_idiom", "unconditional" if plan.get("progress_unconditional") else "if-details.progress")
                    snap = rec["det"]
                    c = inv.get("caller") or {}
                    want_det = {"type": "CallDetails", "caller": c.get("caller"), "caller_authid": c.get("caller_authid"),
                                "caller_authrole": c.get("caller_authrole"),
                                "procedure": c.get("procedure", proc_uri(inv["proc"])),
                                "registration": 9000 + inv["proc"], "has_progress": bool(inv.get("rp")),
                                "enc_algo": "cryptobox" if enc_i else None}
                    if snap == MISSING:
                        V("endpoint-details-mismatch", "not-passed", "call details were requested (%s) but not passed" % proc["det"], i,
                          fold_transport=True)
                    elif snap != want_det:
                        diff = sorted(k for k in want_det if snap.get(k) != want_det[k])
                        V("endpoint-details-mismatch", "+".join(diff) or "fields", "call details %s, INVOCATION carried %s" % (
                            short(snap), short(want_det)), i, fold_transport=True)
            R.seen("styles", "%s/%s/%s" % (case["procs"][inv["proc"]]["style"], plan["mode"], plan["out"][0]))
        n_pending_now = sum(1 for i in range(len(self.invs)) if self.delivered[i])
        return {"violations": viol, "judged": judged, "n_delivered": n_pending_now}


def run_case(case, R, fw, record=True):
    """Execute one case; report violations; returns the judge summary."""
    run = CaseRun(case, R, fw)
    res = run.run()
    R.count("evaluations")
    for key, what, detail in res["violations"]:
        R.violation(key, what, detail, replay=case)
    return res, run
