"""Fidelity probe for the C05 event ``prace`` (not part of the check; run by hand):

    cd /tmp && PYTHONPATH=/repo/src /venv/bin/python /verif/vf/c05_proactor_order_probe.py

Drives CPython's REAL ``asyncio.proactor_events._ProactorSocketTransport`` (the Windows default transport) with a fake
IOCP proactor - Linux has no ``_overlapped`` - under a real autobahn asyncio server protocol and shows that
``connection_lost()`` reaches the adapter while octets it has already been given by ``data_received()`` are still in its
``receive_queue``:

  path 1  a read completes; re-arming ``recv_into`` raises ConnectionResetError synchronously -> ``_force_close()``
          ``call_soon()``s ``_call_connection_lost`` and only then, in ``finally``, the finished read is delivered;
  path 2  a read has completed (its done-callback is scheduled), a callback of the same loop iteration makes the endpoint
          drop the connection (``transport.close()`` -> ``call_soon(_call_connection_lost)``), then the finished read is
          still delivered (``if self._closing: return`` sits in front of the same ``finally``).

Expected output: two lines ``connection_lost ... queue=1``.  The selector transport cannot produce this order (one recv per
read event; connection_lost is always scheduled after the consumer of the previous read).
"""

import asyncio
import base64
import logging
import socket

import txaio

txaio.use_asyncio()

from asyncio import proactor_events  # noqa: E402

from autobahn.asyncio.websocket import WebSocketServerFactory, WebSocketServerProtocol  # noqa: E402


class FakeProactor:
    def __init__(self, loop):
        self.loop = loop
        self.reads = []
        self.raise_next = False

    def recv_into(self, sock, buf, flags=0):
        if self.raise_next:
            raise ConnectionResetError(10054, "An existing connection was forcibly closed by the remote host")
        f = self.loop.create_future()
        self.reads.append((f, buf))
        return f

    def send(self, sock, data, flags=0):
        f = self.loop.create_future()
        f.set_result(len(data))
        return f

    def complete_read(self, data):
        fut, buf = self.reads.pop(0)
        buf[:len(data)] = data
        fut.set_result(len(data))

    def close(self):
        pass


def scenario(path):
    loop = asyncio.SelectorEventLoop()      # only the scheduler: call_soon()/FIFO is base_events code shared by all loops
    txaio.config.loop = loop
    pro = FakeProactor(loop)
    loop._proactor = pro
    a, b = socket.socketpair()
    order = []
    f = WebSocketServerFactory("ws://localhost:9000", loop=loop)

    class P(WebSocketServerProtocol):
        def onClose(self, *args):
            order.append(("onClose",) + args[:2])

    f.protocol = P
    proto = f()
    orig = proto.connection_lost

    def connection_lost(exc):
        order.append(("connection_lost", type(exc).__name__, "queue=%d" % len(proto.receive_queue)))
        orig(exc)

    proto.connection_lost = connection_lost
    proactor_events._ProactorSocketTransport(loop, a, proto)

    def spin(n=5):
        for _ in range(n):
            loop.call_soon(loop.stop)
            loop.run_forever()

    spin()
    key = base64.b64encode(b"0123456789abcdef")
    pro.complete_read(b"GET / HTTP/1.1\r\nHost: localhost:9000\r\nUpgrade: websocket\r\nConnection: Upgrade\r\n"
                      b"Sec-WebSocket-Key: " + key + b"\r\nSec-WebSocket-Version: 13\r\n\r\n")
    spin()
    assert proto.state == proto.STATE_OPEN
    payload, mk = b"\x03\xe8bye", b"\x11\x22\x33\x44"
    frame = bytes([0x88, 0x80 | len(payload)]) + mk + bytes(c ^ mk[i % 4] for i, c in enumerate(payload))
    if path == 1:
        pro.raise_next = True
        pro.complete_read(frame)
    else:
        pro.complete_read(frame)
        proto.dropConnection(abort=False)       # e.g. a timer callback that runs in the same loop iteration
    spin()
    a.close()
    b.close()
    loop.close()
    return order


if __name__ == "__main__":
    logging.disable(logging.CRITICAL)
    for p in (1, 2):
        print("path", p, scenario(p))
