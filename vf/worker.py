import sys
from . import bootstrap  # noqa: F401  (path setup first)
from .runner import worker_main

if __name__ == "__main__":
    worker_main(sys.argv[1:])
