"""C12, object level: the exhaustive negotiation lattice and multi-message sequences through the PMCE objects.

Everything the two protocols do with the compression classes during a handshake is replayed here without a
transport (``c12_common.negotiate_objects``): Offer -> header text -> library parser -> Offer.parse -> OfferAccept ->
header text -> parser -> Response.parse -> ResponseAccept -> the two ``PerMessage*`` objects.  The oracle is
``c12_ref`` (RFC 7692 written from the RFC) plus tagged round trips.
"""

from . import c12_common as CC
from . import c12_ref as R7
from .runner import h

SHORT = CC.SHORT
_JUDGE_CACHE = {}


def judge_cached(ostr, rstr):
    k = (ostr, rstr)
    if k not in _JUDGE_CACHE:
        _JUDGE_CACHE[k] = R7.judge_negotiation(ostr, rstr)
    return _JUDGE_CACHE[k]


def problem_class(p):
    """response-incompatible:server_max_window_bits-larger-than-offered -> stable, value-free class"""
    return p.split(":")[0] + ("/" + p.split(":", 1)[1] if ":" in p else "")


def report_negotiation(R, where, ext, ostr, rstr, S, C, replay, count_prefix="lattice"):
    """Judge one completed negotiation: headers by the reference, effective parameters by the compatibility
    invariants.  -> wire params (dict) or None when the headers are unusable."""
    j = judge_cached(ostr, rstr)
    R.count(count_prefix + "_headers_judged")
    sh = SHORT[ext]
    for e, d, probs in j["offers"]:
        for p in probs:
            R.violation("C12/%s/%s/offer-invalid/%s" % (where, sh, p.split(":")[0]),
                        "the library's client offers a PMCE element the RFC grammar/semantics rejects: %s" % p,
                        {"offer": ostr, "response": rstr}, replay)
    if j.get("offer_header_error"):
        R.violation("C12/%s/%s/offer-invalid/header-grammar" % (where, sh), j["offer_header_error"],
                    {"offer": ostr}, replay)
    if not j["ok"]:
        for p in j["problems"]:
            R.violation("C12/%s/%s/server-response/%s" % (where, sh, problem_class(p)),
                        "server response is not compatible with the client's offer (RFC 7692 7.1): %s" % p,
                        {"offer": ostr, "response": rstr}, replay)
        return None
    if j["ext"] != ext or j["resp"] is None:
        R.violation("C12/%s/%s/server-response/other-extension" % (where, sh),
                    "response does not carry the expected extension", {"offer": ostr, "response": rstr}, replay)
        return None
    wire = R7.wire_params(ext, j["resp"])
    R.count(count_prefix + "_effective_pairs_checked")
    for d, clause in CC.effective_problems(ext, wire, S, C):
        R.violation("C12/%s/%s/%s/%s" % (where, sh, d, clause),
                    "the two ends run direction %s with incompatible effective parameters (%s)" % (d, clause),
                    {"offer": ostr, "response": rstr, "server": repr(S), "client": repr(C), "wire": wire}, replay)
    return wire


# -------------------------------------------------------------------------------------------------
# A. the lattice
# -------------------------------------------------------------------------------------------------

def walk_lattice(R, ext, part, parts):
    """Every (offer, offer-accept, response-accept) point whose offer index falls into this shard."""
    K = CC.classes(ext)
    O, A, RA = CC.LATTICE[ext]
    sh = SHORT[ext]
    seen_pairs = set()
    n_points = n_surv = n_ref_oa = n_ref_ra = 0
    for oi, o in enumerate(O):
        if oi % parts != part:
            continue
        offer = K["Offer"](*o)
        ostr = offer.get_extension_string()
        parsed = CC.lib_parse_header(ostr)
        poffer = K["Offer"].parse(parsed[0][1])
        R.seen("offer_strings", ostr)
        for a in A:
            try:
                acc = K["OfferAccept"](poffer, *a)
            except Exception as e:      # noqa: BLE001 - the constructor refusing is the library's mechanism
                n_points += len(RA)
                n_ref_oa += len(RA)
                R.count("refused[%s offer-accept: %s]" % (sh, _reason(e)), len(RA))
                continue
            rstr = acc.get_extension_string()
            resp = K["Response"].parse(CC.lib_parse_header(rstr)[0][1])
            S = K["PMCE"].create_from_offer_accept(True, acc)
            sk = CC.pmce_key(ext, S)
            for r in RA:
                n_points += 1
                try:
                    racc = K["ResponseAccept"](resp, *r)
                except Exception as e:      # noqa: BLE001
                    n_ref_ra += 1
                    R.count("refused[%s response-accept: %s]" % (sh, _reason(e)))
                    continue
                n_surv += 1
                C = K["PMCE"].create_from_response_accept(False, racc)
                key = (ostr, rstr, sk, CC.pmce_key(ext, C))
                if key in seen_pairs:
                    continue
                seen_pairs.add(key)
                cfg = [list(o), list(a), list(r)]
                report_negotiation(R, "lattice", ext, ostr, rstr, S, C,
                                   {"fam": "lattice-point", "ext": ext, "cfg": cfg})
                R.seen("nontrivial", "lattice/" + h([ext, key]))
                R.seen("wire_pairs", h([ostr, rstr]))
                R.sample({"ext": ext, "cfg": cfg, "offer": ostr, "response": rstr, "server": repr(S), "client": repr(C)},
                         kind="lattice-" + sh, every=997)
    R.count("evaluations", n_points)
    R.count("lattice_points", n_points)
    R.count("lattice_points_" + sh, n_points)
    R.count("lattice_survivors", n_surv)
    R.count("lattice_refused_by_offer_accept", n_ref_oa)
    R.count("lattice_refused_by_response_accept", n_ref_ra)


def _reason(e):
    s = str(e)
    # "invalid value 12 for window_bits - client requested lower maximum value" -> value-free
    import re

    s = re.sub(r"invalid value \S+ for", "invalid value for", s)
    return s[:90]


def check_point(R, ext, cfg):
    """One lattice point (replay)."""
    cfg = CC.cfg_tuple(cfg)
    R.count("evaluations")
    try:
        neg = CC.negotiate_objects(ext, cfg)
    except CC.Refused as e:
        R.count("refused[%s %s]" % (SHORT[ext], e.stage))
        return None
    S, C = neg["make_S"](), neg["make_C"]()
    return report_negotiation(R, "lattice", ext, neg["ostr"], neg["rstr"], S, C,
                              {"fam": "lattice-point", "ext": ext, "cfg": [list(x) for x in cfg]})


# -------------------------------------------------------------------------------------------------
# B. message sequences through one surviving pair, both directions interleaved
# -------------------------------------------------------------------------------------------------

SMALL_K = (None, None, 1, 7, 125, 1000, 4096)


def pick_k(rng, n, cls):
    if cls == "window-ladder":
        return 61                     # back-references must be served from the WINDOW, not from one output buffer
    k = rng.choice(SMALL_K)
    if k is not None and k < 100 and n > 600:
        k = 125
    return k


class Direction:
    """One direction of one pair: library compressor X, library decompressor Y, a second library decompressor Y2 that
    receives what an independent RFC peer would send, and the reference inflater reading what X produced."""

    def __init__(self, ext, d, X, Y, Y2, wire, rng, modes):
        self.ext, self.d, self.X, self.Y, self.Y2 = ext, d, X, Y, Y2
        self.refD, self.refI = CC.ref_codecs(ext, wire, d, "sync", rng)
        self.mixed = CC.MixedRefDeflater(self.refD) if ext == CC.DEFLATE else None
        self.modes = modes
        self.wire = wire
        self.dead = False             # library <-> library path broken (do not cascade)
        self.dead_ref_in = False      # reference inflater lost sync
        self.dead_ref_out = False     # reference -> library path broken
        self.n = 0


def drive_pair(R, case):
    """case = {fam: objects, ext, cfg, scale, seed}."""
    ext, cfg, scale, seed = case["ext"], CC.cfg_tuple(case["cfg"]), case["scale"], case["seed"]
    sh = SHORT[ext]
    R.count("evaluations")
    try:
        neg = CC.negotiate_objects(ext, cfg)
    except CC.Refused:
        R.count("objects_cfg_refused")
        return
    S, C = neg["make_S"](), neg["make_C"]()
    S2, C2 = neg["make_S"](), neg["make_C"]()
    wire = report_negotiation(R, "objects", ext, neg["ostr"], neg["rstr"], S, C, case, "objects")
    if wire is None:
        return
    rng = CC.shard_rng(seed, "objects", ext, cfg, scale)
    modes_s = rng.choice([("sync",), ("sync",), ("split", "sync"), ("fullflush", "sync", "stored"),
                          ("sync", "bfinal", "split"), CC.MixedRefDeflater.MODES])
    modes_c = rng.choice([("sync",), ("stored", "sync"), ("split",), ("bfinal", "sync"), CC.MixedRefDeflater.MODES])
    dirs = {"s2c": Direction(ext, "s2c", S, C, C2, wire, rng, modes_s),
            "c2s": Direction(ext, "c2s", C, S, S2, wire, rng, modes_c)}
    plans = {"s2c": CC.message_plan(rng, "s2c", scale), "c2s": CC.message_plan(rng, "c2s", scale)}
    order = []
    for d in ("s2c", "c2s"):
        order += [d] * len(plans[d])
    rng.shuffle(order)
    idx = {"s2c": 0, "c2s": 0}
    compared = 0
    for d in order:
        D = dirs[d]
        cls, msg, _binary = plans[d][idx[d]]
        idx[d] += 1
        compared += one_message(R, case, D, S, C, cls, msg, rng)
    if compared >= 2:
        R.seen("nontrivial", "objects/" + h([ext, cfg, scale]))
        R.count("objects_ctx[%s s2c:%s c2s:%s]" % (sh, CC.ctxmode(ext, S, C, "s2c"), CC.ctxmode(ext, S, C, "c2s")))
    R.seen("effective_pairs_driven", h([ext, CC.neg_key(ext, S), CC.neg_key(ext, C)]))
    R.sample({"ext": ext, "cfg": [list(x) for x in cfg], "scale": scale, "offer": neg["ostr"], "response": neg["rstr"],
              "server": repr(S), "client": repr(C), "messages_per_direction": len(plans["s2c"])},
             kind="objects-" + sh, every=499)


def one_message(R, case, D, S, C, cls, msg, rng):
    ext, d = D.ext, D.d
    sh = SHORT[ext]
    pos = "first-message" if D.n == 0 else "later-message"
    i = D.n
    D.n += 1
    ctx = CC.ctxmode(ext, S, C, d)
    base = "C12/objects/%s/%s" % (sh, d)
    detail = {"direction": d, "message_index": i, "class": cls, "length": len(msg), "server": repr(S), "client": repr(C)}
    compared = 0
    payload = None
    if not D.dead:
        # 1. the library compresses (frame API style chunking) ...
        try:
            payload = CC.lib_compress(D.X, msg, pick_k(rng, len(msg), cls))
        except Exception as e:      # noqa: BLE001
            D.dead = True
            R.violation("%s/%s/compress-raises-%s/%s" % (base, ctx, CC.excname(e), pos),
                        "compressing message #%d of the direction raised %r" % (i, e), detail, case)
        # 2. ... and the library at the other end decompresses (frame by frame)
        if payload is not None:
            try:
                out = CC.lib_decompress(D.Y, payload, pick_k(rng, len(payload), cls))
            except Exception as e:      # noqa: BLE001
                D.dead = True
                R.violation("%s/%s/decompress-raises-%s/%s" % (base, ctx, CC.excname(e), pos),
                            "decompressing message #%d of the direction raised %r" % (i, e), detail, case)
            else:
                R.count("object_messages_roundtripped")
                compared += 1
                if i > 0:
                    R.count("later_messages_compared")
                if out != msg:
                    D.dead = True
                    R.violation("%s/%s/roundtrip-mismatch/%s" % (base, ctx, pos),
                                "message #%d (%s, %d octets) came back different (%d octets)" % (i, cls, len(msg), len(out)),
                                dict(detail, sent=msg[:64].hex(), got=out[:64].hex()), case)
    # 3. what the library put on the wire must be readable by an independent peer that only knows the headers
    if payload is not None and D.refI is not None and not D.dead_ref_in:
        try:
            out = D.refI.inflate(payload)
        except R7.RefInflateError as e:
            D.dead_ref_in = True
            R.violation("%s/lib-to-ref/%s/%s" % (base, e.clause, pos),
                        "an RFC 7692 peer using the negotiated parameters cannot inflate message #%d: %s" % (i, e),
                        dict(detail, wire=D.wire), case)
        else:
            R.count("lib_to_ref_compared")
            if out != msg:
                D.dead_ref_in = True
                R.violation("%s/lib-to-ref/inflates-to-other-data/%s" % (base, pos),
                            "an RFC 7692 peer inflates message #%d to different data" % i, dict(detail, wire=D.wire), case)
        if ext == CC.BZIP2:
            lvl = D.wire["s_lvl" if d == "s2c" else "c_lvl"]
            if payload[:3] != b"BZh" or not (49 <= payload[3] <= 48 + lvl):
                R.violation("%s/lib-to-ref/compress-level-exceeds-negotiated" % base,
                            "bzip2 stream header %r, negotiated maximum level %d" % (payload[:4], lvl), detail, case)
    # 4. what an independent peer sends with the negotiated parameters must be read correctly by the library
    if D.refD is not None and not D.dead_ref_out:
        if D.mixed is not None:
            mode = D.modes[i % len(D.modes)]
            rp = D.mixed.deflate(msg, mode)
            style = "after-bfinal-block" if D.mixed.bfinal_seen else "sync-flush"
        else:
            rp = D.refD.deflate(msg)
            style = "whole-stream"
        try:
            out = CC.lib_decompress(D.Y2, rp, pick_k(rng, len(rp), cls))
        except Exception as e:      # noqa: BLE001
            D.dead_ref_out = True
            R.violation("%s/ref-to-lib/%s/decompress-raises-%s/%s" % (base, style, CC.excname(e), pos),
                        "message #%d deflated by an RFC 7692 peer with the negotiated parameters: library raised %r" % (i, e),
                        dict(detail, wire=D.wire), case)
        else:
            R.count("ref_to_lib_compared")
            R.seen("ref_flush_styles", style)
            compared += 1
            if out != msg:
                D.dead_ref_out = True
                R.violation("%s/ref-to-lib/%s/mismatch/%s" % (base, style, pos),
                            "message #%d (%s, %d octets) deflated by an RFC 7692 peer is delivered as %d other octets" % (
                                i, cls, len(msg), len(out)), dict(detail, wire=D.wire, got=out[:64].hex()), case)
    R.seen("message_classes", "%s/%s" % (sh, cls[:16]))
    return compared
