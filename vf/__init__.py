"""vf - harness package of /verif (runtime monitoring of autobahn-python)."""
