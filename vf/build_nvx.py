"""Rebuild the two native NVX modules from the CURRENT tree.

The ``_nvx_*.so`` files that ``import _nvx_utf8validator`` finds in site-packages are
prebuilt and do not follow edits of ``src/autobahn/nvx/*.c``; so the C source is compiled
here, with cffi, into ``/verif/.build/nvx-<flavour>-<sha>/`` which workers put first on
``sys.path`` (``VERIF_NVX_DIR``).  The cdef/source come from the tree's own builder modules
(``autobahn.nvx._utf8validator.ffi`` is re-created here from the same .c/.py text so that a
changed cdef is followed too).

flavours:  ship  = the repository's own flags (get_compile_args())
           asan  = clang -O1 -g -fsanitize=address,undefined -fno-sanitize-recover=all
"""

import hashlib
import importlib.util
import os
import re
import shutil
import subprocess
import sys

from . import bootstrap

ASAN_RT = "/usr/lib/llvm-14/lib/clang/14.0.6/lib/linux/libclang_rt.asan-x86_64.so"
MODS = [("_utf8validator", "_nvx_utf8validator"), ("_xormasker", "_nvx_xormasker")]


def _nvx_src_dir():
    return os.path.join(bootstrap.REPO_SRC, "autobahn", "nvx")


def _load_compile_args():
    p = os.path.join(_nvx_src_dir(), "_compile_args.py")
    spec = importlib.util.spec_from_file_location("_verif_nvx_compile_args", p)
    m = importlib.util.module_from_spec(spec)
    spec.loader.exec_module(m)
    return list(m.get_compile_args())


def _cdef_of(pyfile):
    """Extract the ffi.cdef(\"\"\"...\"\"\") text from the tree's builder module."""
    with open(pyfile) as f:
        txt = f.read()
    m = re.search(r'ffi\.cdef\(\s*"""(.*?)"""', txt, re.S)
    if not m:
        raise RuntimeError("no cdef in " + pyfile)
    return m.group(1)


def source_digest(flavour):
    hh = hashlib.sha256()
    d = _nvx_src_dir()
    for n in ("_utf8validator.c", "_utf8validator.py", "_xormasker.c", "_xormasker.py", "_compile_args.py"):
        with open(os.path.join(d, n), "rb") as f:
            hh.update(f.read())
    hh.update(flavour.encode())
    hh.update(bootstrap.REPO_SRC.encode())
    return hh.hexdigest()[:16]


def build(flavour="ship", quiet=True):
    """Return the build directory (building it when absent); raise on compile failure."""
    out = os.path.join(bootstrap.VERIF_ROOT, ".build", "nvx-%s-%s" % (flavour, source_digest(flavour)))
    marker = os.path.join(out, "BUILD_OK")
    if os.path.exists(marker):
        try:
            os.utime(marker, None)        # mark as in use (pruning is by age)
            os.utime(out, None)
        except OSError:
            pass
        return out
    # concurrent checks / self-tests build the same digest: build into a private directory and publish it with
    # one atomic rename, so nobody ever sees (or removes) a half-built directory
    final = out
    out = "%s.tmp.%d" % (final, os.getpid())
    if os.path.isdir(out):
        shutil.rmtree(out)
    os.makedirs(out)
    # drop old builds of the same flavour (disk is limited); keep the 80 most recent ones and anything younger than 6 h because
    # self-test runs (VERIF_REPO_SRC=scratch copy) build concurrently with checks of /repo
    parent = os.path.dirname(out)
    olds = sorted((os.path.getmtime(os.path.join(parent, n)), n) for n in os.listdir(parent)
                  if n.startswith("nvx-%s-" % flavour) and ".tmp." not in n and os.path.join(parent, n) != final)
    import time as _time
    for mt, n in olds[:-80]:
        if _time.time() - mt > 6 * 3600:      # never remove a build a concurrent run may still be using
            shutil.rmtree(os.path.join(parent, n), ignore_errors=True)
    if flavour == "ship":
        cargs = _load_compile_args()
        largs = []
        env = dict(os.environ)
    elif flavour == "asan":
        cargs = ["-std=c99", "-O1", "-g", "-fno-omit-frame-pointer", "-msse2", "-march=x86-64-v2",
                 "-fsanitize=address,undefined", "-fno-sanitize-recover=all", "-shared-libasan"]
        largs = ["-fsanitize=address,undefined", "-shared-libasan"]
        env = dict(os.environ, CC="clang", LDSHARED="clang -shared")
    else:
        raise ValueError(flavour)
    script = r'''
import sys, os
from cffi import FFI
name, cdef_file, c_file, out = sys.argv[1:5]
cargs = eval(sys.argv[5]); largs = eval(sys.argv[6])
ffi = FFI()
ffi.cdef(open(cdef_file).read())
ffi.set_source(name, open(c_file).read(), libraries=[], extra_compile_args=cargs, extra_link_args=largs)
ffi.compile(tmpdir=out, verbose=False)
'''
    for base, modname in MODS:
        cdef = _cdef_of(os.path.join(_nvx_src_dir(), base + ".py"))
        cdef_file = os.path.join(out, modname + ".cdef")
        with open(cdef_file, "w") as f:
            f.write(cdef)
        p = subprocess.run([sys.executable, "-c", script, modname, cdef_file,
                            os.path.join(_nvx_src_dir(), base + ".c"), out, repr(cargs), repr(largs)],
                           env=env, stdout=subprocess.PIPE, stderr=subprocess.STDOUT, timeout=600)
        if p.returncode != 0:
            shutil.rmtree(out, ignore_errors=True)
            raise RuntimeError("NVX build failed (%s, %s):\n%s" % (flavour, modname, p.stdout.decode()[-4000:]))
    for n in os.listdir(out):
        if n.endswith((".o", ".c")) and not n.endswith(".so"):
            try:
                os.remove(os.path.join(out, n))
            except OSError:
                pass
    with open(os.path.join(out, "BUILD_OK"), "w") as f:
        f.write("ok\n")
    try:
        os.rename(out, final)
    except OSError:
        # somebody else published the same build meanwhile
        shutil.rmtree(out, ignore_errors=True)
        if not os.path.exists(marker):
            raise
    return final


def worker_env(flavour):
    """Environment for a worker that must import the freshly built modules."""
    d = build(flavour)
    env = {"VERIF_NVX_DIR": d, "AUTOBAHN_USE_NVX": "1"}
    if flavour == "asan":
        env.update({
            "LD_PRELOAD": ASAN_RT,
            "ASAN_OPTIONS": "detect_leaks=0:halt_on_error=1:abort_on_error=1:allocator_may_return_null=1:quarantine_size_mb=4:malloc_context_size=0",
            "UBSAN_OPTIONS": "halt_on_error=1:print_stacktrace=1",
            "PYTHONMALLOC": "malloc",
        })
    return env


def assert_fresh():
    """In a worker: the imported native modules must come from VERIF_NVX_DIR."""
    d = os.environ.get("VERIF_NVX_DIR")
    import _nvx_utf8validator
    import _nvx_xormasker

    for m in (_nvx_utf8validator, _nvx_xormasker):
        if not d or not os.path.abspath(m.__file__).startswith(os.path.abspath(d) + os.sep):
            sys.stderr.write("CANNOT-RUN: %s is not the fresh build (%s)\n" % (m.__file__, d))
            sys.exit(2)


if __name__ == "__main__":
    import argparse

    ap = argparse.ArgumentParser()
    ap.add_argument("--flavour", default="ship")
    a = ap.parse_args()
    print(build(a.flavour))
