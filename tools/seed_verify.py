#!/venv/bin/python
"""Confirm an independently written property-breaking change and try the matching check on it.

    tools/seed_verify.py <ID> <dir-with-patch.diff+demo.py+notes.md> [--name slug] [--keep] [--tier quick]

Steps (all in a scratch git worktree of /repo under /tmp, removed afterwards; /repo is never touched):
  1. clean tree: demo must print PASS / exit 0
  2. patch applies; demo must exit non-zero (FAIL)
  3. pinned test suite with the patch: the 288 baseline tests still pass (tools/baseline.py)
  4. ./check <ID> with VERIF_REPO_SRC=<worktree>/src: CAUGHT iff exit 1 + VIOLATION line
With --keep the change is stored as /verif/seeded/<ID>-<slug>/ {patch.diff, demo.py, notes.md, meta.json}.
"""
import argparse
import json
import os
import shutil
import subprocess
import sys

ROOT = os.path.dirname(os.path.dirname(os.path.abspath(__file__)))


def sh(cmd, **kw):
    return subprocess.run(cmd, stdout=subprocess.PIPE, stderr=subprocess.STDOUT, **kw)


def main():
    ap = argparse.ArgumentParser()
    ap.add_argument("prop")
    ap.add_argument("dir")
    ap.add_argument("--name")
    ap.add_argument("--keep", action="store_true")
    ap.add_argument("--tier", default="quick")
    ap.add_argument("--jobs", default="8")
    ap.add_argument("--skip-baseline", action="store_true")
    ap.add_argument("--no-check", action="store_true", help="only confirm the change (demo + baseline); do not run the check")
    a = ap.parse_args()
    prop = a.prop.upper()
    d = os.path.abspath(a.dir)
    patch = os.path.join(d, "patch.diff")
    demo = os.path.join(d, "demo.py")
    wt = "/tmp/sv-%s-%d" % (prop, os.getpid())
    res = {"property": prop, "source_dir": d}
    sh(["git", "-C", "/repo", "worktree", "add", "--detach", wt, "HEAD", "-q"])
    try:
        env = dict(os.environ, PYTHONPATH=os.path.join(wt, "src"))
        env.pop("USE_TWISTED", None)
        env.pop("USE_ASYNCIO", None)
        p = sh(["/venv/bin/python", demo], cwd="/tmp", env=env, timeout=900)
        res["demo_clean_rc"] = p.returncode
        res["demo_clean_tail"] = p.stdout.decode("utf8", "replace")[-300:]
        p = sh(["git", "apply", patch], cwd=wt)
        res["patch_applies"] = p.returncode == 0
        if p.returncode != 0:
            res["patch_error"] = p.stdout.decode()[-500:]
        else:
            p = sh(["/venv/bin/python", demo], cwd="/tmp", env=env, timeout=900)
            res["demo_patched_rc"] = p.returncode
            res["demo_patched_tail"] = p.stdout.decode("utf8", "replace")[-300:]
            if not a.skip_baseline:
                p = sh(["/venv/bin/python", os.path.join(ROOT, "tools", "baseline.py"), wt], timeout=1800)
                res["baseline_ok"] = p.returncode == 0
                res["baseline_tail"] = p.stdout.decode()[-200:]
            if a.no_check:
                raise StopIteration
            cenv = dict(os.environ, VERIF_REPO_SRC=os.path.join(wt, "src"), VERIF_JOBS=a.jobs)
            p = sh([os.path.join(ROOT, "check"), prop, "--tier", a.tier], cwd=ROOT, env=cenv, timeout=7200)
            out = p.stdout.decode("utf8", "replace")
            res["check_rc"] = p.returncode
            res["check_caught"] = p.returncode == 1 and ("VIOLATION property=%s" % prop) in out
            res["check_keys"] = [ln.strip()[:200] for ln in out.splitlines() if ln.strip().startswith("key=")][:6]
            res["check_tail"] = out[-400:]
    except StopIteration:
        pass
    finally:
        res["confirmed"] = bool(res.get("demo_clean_rc") == 0 and res.get("patch_applies") and
                                res.get("demo_patched_rc", 0) != 0 and res.get("baseline_ok", a.skip_baseline))
        sh(["git", "-C", "/repo", "worktree", "remove", "--force", wt])
        shutil.rmtree(wt, ignore_errors=True)
        for n in os.listdir(os.path.join(ROOT, ".build")) if os.path.isdir(os.path.join(ROOT, ".build")) else []:
            pass
    print(json.dumps(res, indent=1))
    if a.keep and res["confirmed"]:
        name = "%s-%s" % (prop, a.name or os.path.basename(d))
        dst = os.path.join(ROOT, "seeded", name)
        os.makedirs(dst, exist_ok=True)
        for f in ("patch.diff", "demo.py", "notes.md"):
            if os.path.exists(os.path.join(d, f)):
                shutil.copy(os.path.join(d, f), os.path.join(dst, f))
        notes = open(os.path.join(d, "notes.md")).read() if os.path.exists(os.path.join(d, "notes.md")) else ""
        meta = {"property": prop, "name": name, "needs_to_manifest": notes[:1500],
                "confirmed_by": "tools/seed_verify.py: demo PASS on clean worktree, FAIL with patch, pinned 288 tests still pass with patch",
                "ran": "./check %s --tier %s with VERIF_REPO_SRC=<patched worktree>/src" % (prop, a.tier),
                "caught_by_check": res.get("check_caught"), "violation_keys": res.get("check_keys")}
        json.dump(meta, open(os.path.join(dst, "meta.json"), "w"), indent=1)
    sys.exit(0 if res.get("confirmed") and (res.get("check_caught") or a.no_check) else 1)


if __name__ == "__main__":
    main()
