#!/bin/sh
# usage: verify_one.sh ID k [ID k ...]
cd /verif
while [ $# -ge 2 ]; do id=$1; k=$2; shift 2
  /venv/bin/python tools/seed_verify.py $id /tmp/seedout/$id/$k --keep --name seed$k --jobs 8 > /tmp/seedout/$id/verify$k.json 2>&1
  rc=$?
  if [ -f /tmp/seedout/$id/$k/rebased.txt ] && [ -f seeded/$id-seed$k/meta.json ]; then python3 - <<P
import json
p='/verif/seeded/$id-seed$k/meta.json'; d=json.load(open(p)); d['rebased']=open('/tmp/seedout/$id/$k/rebased.txt').read().strip(); json.dump(d,open(p,'w'),indent=1)
P
  fi
  echo "$id/$k rc=$rc $(python3 -c "
import json;d=json.load(open('/tmp/seedout/$id/verify$k.json'));print({k:d.get(k) for k in ('confirmed','check_rc','check_caught')}, (d.get('check_keys') or [''])[0][:140])")"
done
