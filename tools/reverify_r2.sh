#!/bin/sh
# reverify_r2.sh ID k ...
cd /verif
while [ $# -ge 2 ]; do id=$1; k=$2; shift 2
  /venv/bin/python tools/seed_verify.py $id /tmp/seedout2/$id/$k --keep --name r2seed$k --jobs 8 --skip-baseline > /tmp/seedout2/$id/verify$k.json 2>&1
  echo "$id/r2-$k rc=$? $(python3 -c "
import json;d=json.load(open('/tmp/seedout2/$id/verify$k.json'));print({k:d.get(k) for k in ('confirmed','check_rc','check_caught')}, (d.get('check_keys') or [''])[0][:130])")"
done
