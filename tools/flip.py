#!/usr/bin/env python3
"""tools/flip.py <ID> <finding-id>=<commit> ...  : mark known findings as fixed (status, commit, 'fixed:' line)."""
import json, sys
prop = sys.argv[1]
m = dict(a.split("=") for a in sys.argv[2:])
path = "/verif/known_findings/%s.json" % prop
d = json.load(open(path))
for f in d["findings"]:
    if f["id"] in m:
        f["status"] = "fixed"; f["commit"] = m[f["id"]]
        f["line"] = "fixed: property=%s %s %s" % (prop, m[f["id"]], f["what_fails"][:240])
        f.pop("proposed_fix", None)
json.dump(d, open(path, "w"), indent=1)
print(prop, [(f["id"], f["status"]) for f in d["findings"]])
