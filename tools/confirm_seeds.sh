#!/bin/sh
cd /verif
for id in "$@"; do for k in 1 2 3; do
  [ -f /tmp/seedout/$id/$k/patch.diff ] || continue
  /venv/bin/python tools/seed_verify.py $id /tmp/seedout/$id/$k --keep --name seed$k --no-check > /tmp/seedout/$id/confirm$k.json 2>&1
  echo "$id/$k rc=$? $(python3 -c "
import json;d=json.load(open('/tmp/seedout/$id/confirm$k.json'));print({k:d.get(k) for k in ('confirmed','demo_clean_rc','patch_applies','demo_patched_rc','baseline_ok')})")"
done; done
