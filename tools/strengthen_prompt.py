#!/usr/bin/env python3
"""Prompt for a check-author agent that has to strengthen checks/c<NN>.py after independently seeded
property-breaking changes were missed.  usage: strengthen_prompt.py <ID> <seeded-dir-name> [...]"""
import json
import sys

pid = sys.argv[1].upper()
names = sys.argv[2:]
WS = {"C01", "C02", "C05", "C07", "C09", "C12", "C15", "C16", "C17"}
brief = "/verif/AGENT_WS.md" if pid in WS else "/verif/AGENT_WAMP.md"
nn = pid[1:]
seeds = "\n".join("  * /verif/seeded/%s/  (patch.diff = the change, demo.py = a program that passes on the clean tree and fails "
                  "with the change, notes.md = what the change needs in order to manifest)" % n for n in names)
print(f"""You are the author/maintainer of ONE runtime-monitoring check, property {pid}, in the verification harness at /verif for the
Python library crossbario/autobahn-python checked out at /repo. The check exists and is silent on the unchanged tree. Independent
engineers who saw ONLY the property text wrote realistic property-breaking changes to the library (each still passes the
library's own test suite). Your check MISSED the following ones:

{seeds}

Your job: strengthen the check (workload dimensions and/or oracle) so that it detects each of these changes - and, more
importantly, the whole CLASS of defect each one stands for (the missing workload dimension / event order / option combination /
observation), not just this one patch. Do not special-case the patched lines; ask "which behaviour behind the property did my
workload never drive or my oracle never compare?" and add exactly that, generalised.

Read first: /verif/AUTHORING.md, {brief}, /verif/AGENT_RESUME.md (triage discipline, quality bar), your property record (id
{pid}) in /verif/properties.jsonl, the "### {pid}" sub-section of /verif/DESIGN.md, then your files: /verif/checks/c{nn}.py,
/verif/vf/c{nn}_*.py, /verif/known_findings/{pid}.json, /verif/selftest/{pid}/.

Rules (same as in the briefs; the important ones again):
* Edit ONLY your own files: checks/c{nn}.py, vf/c{nn}_*.py (new helper modules allowed), selftest/{pid}/*.diff,
  known_findings/{pid}.json, proposed_fixes/{pid}-*. Never edit /repo, shared vf modules, other checks, seeded/, DESIGN.md,
  MANIFEST.json. No git commands that change state (no commit/add/checkout/stash) anywhere.
* A missed change may turn out to break nothing the property STATEMENT demands (e.g. it changes behaviour the statement leaves
  open, or needs an event order the real frameworks cannot produce). Then do NOT bend the oracle: say so in your report with
  the reasoning (it will be recorded as "outside the statement"). A false alarm on correct code is the worst outcome.
* To run your check against a seeded change without touching /repo:
      rm -rf /tmp/{pid}-s && mkdir /tmp/{pid}-s && cp -r /repo/src /tmp/{pid}-s/src && (cd /tmp/{pid}-s && patch -p1 -s < /verif/seeded/<name>/patch.diff)
      cd /verif && VERIF_REPO_SRC=/tmp/{pid}-s/src VERIF_JOBS=6 ./check {pid} --tier quick      # expect exit 1 + VIOLATION line
      rm -rf /tmp/{pid}-s
  (seeds that edit src/autobahn/nvx/*.c are rebuilt from that tree automatically by vf/build_nvx.py.) Remove scratch copies.
* The machine is shared with other agents: use VERIF_JOBS=6 (or --jobs 6) while developing; give shards generous timeouts.
* After your changes the check must still be SILENT on the unchanged tree: `for s in 0 1 2 3 4; do VERIF_JOBS=6 ./check {pid} --seed $s; done`
  all exit 0, and `VERIF_JOBS=8 ./check {pid} --tier thorough` exits 0 (run it once to completion). If a new alarm appears on the
  unchanged tree, triage it as AGENT_RESUME.md prescribes (genuine defect -> known_findings entry with status "known" +
  proposed_fixes/{pid}-<slug>.diff + .repro.py; your oracle wrong -> fix the oracle).
* Keep the quick tier at roughly its present cost (<= ~60 s wall on 16 idle cores); put expensive depth into the thorough tier.
* Add/extend DECIDING counters for every new dimension (a run where the new monitor observed nothing must be INCONCLUSIVE, not
  held), keep violation keys classified by mechanism, and add one selftest/{pid}/<name>.diff per new dimension (a DIFFERENT
  break than the seeded patch that needs the same dimension), confirmed caught.
* All {pid} selftest diffs and previously caught seeded changes must still be caught; at the end run
      cd /verif && /venv/bin/python tools/selftest.py {pid} --parallel 2
  and fix regressions.

Final report (short; read by the parent agent): for each missed change: caught now? by which violation key, through which new
dimension/oracle clause - or "outside the statement" with reasoning; files changed; new DECIDING counters with observed values;
quick-tier wall time before/after; any new finding on the unchanged tree (key, 3-line reproduction, proposed fix file); a 2-3
line row for DESIGN.md's strengthening table (seeded change | gap | what was added).""")
