#!/venv/bin/python
"""Re-run every kept seeded change against its check (tools/selftest.py --only-seeded) and record the outcome in
seeded/<name>/meta.json (caught_by_check, violation_keys, last_verified_repo_commit).  usage: update_seeded_meta.py [ID ...] [--parallel N]"""
import json, os, re, subprocess, sys
ROOT = os.path.dirname(os.path.dirname(os.path.abspath(__file__)))
args = [a for a in sys.argv[1:] if not a.startswith("--")]
par = "3"
if "--parallel" in sys.argv:
    par = sys.argv[sys.argv.index("--parallel") + 1]
    args = [a for a in args if a != par]
head = subprocess.run(["git", "-C", "/repo", "log", "--format=%h", "-1"], stdout=subprocess.PIPE).stdout.decode().strip()
p = subprocess.run(["/venv/bin/python", os.path.join(ROOT, "tools", "selftest.py")] + args + ["--only-seeded", "--parallel", par],
                   stdout=subprocess.PIPE, stderr=subprocess.STDOUT)
out = p.stdout.decode("utf8", "replace")
print(out)
n = {"CAUGHT": 0, "other": 0}
for ln in out.splitlines():
    m = re.match(r"^(C\d\d)\s+(seeded/[^/]+)/patch\.diff\s+(\S+)\s*(.*)$", ln)
    if not m:
        continue
    prop, d, status, info = m.groups()
    mp = os.path.join(ROOT, d, "meta.json")
    if not os.path.exists(mp):
        continue
    meta = json.load(open(mp))
    if status == "CAUGHT":
        meta["caught_by_check"] = True
        meta["violation_keys"] = [k.strip() for k in info.split(";") if k.strip()][:3]
        meta.pop("not_caught_reason", None) if False else None
        n["CAUGHT"] += 1
    else:
        meta["caught_by_check"] = False
        meta["last_status"] = status
        n["other"] += 1
    meta["last_verified_repo_commit"] = head
    json.dump(meta, open(mp, "w"), indent=1)
print("updated:", n)
