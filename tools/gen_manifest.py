#!/venv/bin/python
"""Regenerate MANIFEST.json from the check modules present under checks/ (MANIFEST_ENTRY in each)."""
import importlib
import json
import os
import sys

ROOT = os.path.dirname(os.path.dirname(os.path.abspath(__file__)))
sys.path.insert(0, ROOT)

NOT_APPLICABLE = {}   # property -> reason, for properties this family genuinely cannot decide (none so far)
# checks validated on the unchanged tree (quick + thorough, seeds 0..4 silent apart from listed known findings)
READY = set(open(os.path.join(ROOT, "tools", "ready.txt")).read().split())

props = [json.loads(l)["id"] for l in open(os.path.join(ROOT, "properties.jsonl"))]
checks, na = [], []
for pid in props:
    path = os.path.join(ROOT, "checks", pid.lower() + ".py")
    if pid in NOT_APPLICABLE or not os.path.exists(path):
        na.append({"property_id": pid, "reason": NOT_APPLICABLE.get(
            pid, "no check registered yet at this commit (runtime monitor designed in DESIGN.md section 3, not built); nothing is claimed")})
        continue
    mod = importlib.import_module("checks." + pid.lower())
    e = getattr(mod, "MANIFEST_ENTRY", None)
    if e is None or e.get("disabled") or pid not in READY:
        na.append({"property_id": pid, "reason": (e or {}).get(
            "disabled", "check module present but not yet validated on the unchanged tree; nothing is claimed")})
        continue
    checks.append({
        "property_id": pid,
        "quick_cmd": "./check %s --tier quick" % pid,
        "thorough_cmd": "./check %s --tier thorough" % pid,
        "evidence_file": "/verif/evidence/%s.json" % pid,
        "replay_cmd_template": "./check %s --replay {path}" % pid,
        "engine": "vf-runtime-monitor",
        "level_claimed": {"category": mod.LEVEL, "text": e["text"], "design_ref": e.get("design_ref", "DESIGN.md section 3, " + pid)},
        "level_note": e["note"],
        "technique": e["technique"],
    })
manifest = {
    "version": 1,
    "setup_cmd": "sh ./setup.sh",
    "hooks": {
        "guard": "AUTOBAHN_VERIF_HOOKS",
        "enable": "no source hooks exist: every observation point is reached by subclassing/wrapping the real classes from the harness (vf/), so checks run /repo's working tree unmodified (PYTHONPATH=/repo/src, NVX C code recompiled from the tree by vf/build_nvx.py)",
        "baseline_off_cmd": "cd /repo && /venv/bin/python -m pytest -ra -q -p no:cacheprovider --timeout=900 --continue-on-collection-errors",
        "source_commits": [],
        "add_only": True,
    },
    "engines": [{
        "name": "vf-runtime-monitor", "path": "/verif/vf",
        "serves_properties": [c["property_id"] for c in checks],
        "kind_free_text": "runtime monitoring: real code driven by generated/enumerated hostile workloads in worker processes (virtual clock, fake transports, adversarial scheduler); verdicts from independent reference oracles over recorded histories, invariants at hooks, icontract contracts, clang ASan+UBSan builds of the native code",
    }],
    "checks": checks,
    "not_applicable": na,
    "notes": "Exit codes of ./check: 0 held on everything observed, 1 violation (VIOLATION line + replay file), 3 inconclusive (a deciding monitor observed too little / a worker timed out), 2 cannot run. Known findings: known_findings/<ID>.json (one file per property, keyed by mechanism).",
}
json.dump(manifest, open(os.path.join(ROOT, "MANIFEST.json"), "w"), indent=1)
print("checks:", [c["property_id"] for c in checks], "not_applicable:", [n["property_id"] for n in na])
