#!/venv/bin/python
"""Mutation self-test: do the checks fire when the property is broken?

    tools/selftest.py [ID ...] [--seeded] [--tier quick] [--jobs N]

For every ``selftest/<ID>/<name>.diff`` (and, with --seeded, ``seeded/<name>/patch.diff`` whose
meta.json names property <ID>) a scratch copy of /repo/src is made under /tmp (outside /repo
and /verif), the diff applied with ``git apply``/``patch -p1``, the matching check run with
``VERIF_REPO_SRC=<scratch>/src`` and the scratch copy removed.  Expected: exit 1 and a
``VIOLATION property=<ID>`` line.  Prints a table; exit 0 iff every patch was caught.
/repo itself is never touched.
"""

import argparse
import glob
import json
import os
import shutil
import subprocess
import sys
import tempfile
from concurrent.futures import ThreadPoolExecutor

ROOT = os.path.dirname(os.path.dirname(os.path.abspath(__file__)))


def run_one(prop, diff, tier, jobs_per_check):
    tmp = tempfile.mkdtemp(prefix="vf-selftest-")
    try:
        shutil.copytree("/repo/src", os.path.join(tmp, "src"), ignore=shutil.ignore_patterns("__pycache__", "*.so", "*.o"))
        p = subprocess.run(["patch", "-p1", "--no-backup-if-mismatch", "-i", os.path.abspath(diff)], cwd=tmp,
                           stdout=subprocess.PIPE, stderr=subprocess.STDOUT)
        if p.returncode != 0:
            return (prop, diff, "PATCH-FAILED", p.stdout.decode()[-300:])
        env = dict(os.environ, VERIF_REPO_SRC=os.path.join(tmp, "src"), VERIF_JOBS=str(jobs_per_check))
        c = subprocess.run([os.path.join(ROOT, "check"), prop, "--tier", tier], cwd=ROOT, env=env,
                           stdout=subprocess.PIPE, stderr=subprocess.STDOUT, timeout=3600)
        out = c.stdout.decode()
        hit = c.returncode == 1 and ("VIOLATION property=%s" % prop) in out
        keys = [ln.strip()[:160] for ln in out.splitlines() if ln.strip().startswith("key=")][:3]
        return (prop, diff, "CAUGHT" if hit else "MISSED(rc=%d)" % c.returncode, "; ".join(keys) if hit else out[-400:])
    except subprocess.TimeoutExpired:
        return (prop, diff, "TIMEOUT", "")
    finally:
        shutil.rmtree(tmp, ignore_errors=True)
        # NVX builds keyed by the scratch path
        for d in glob.glob(os.path.join(ROOT, ".build", "nvx-*")):
            pass


def main():
    ap = argparse.ArgumentParser()
    ap.add_argument("ids", nargs="*")
    ap.add_argument("--seeded", action="store_true")
    ap.add_argument("--only-seeded", action="store_true")
    ap.add_argument("--tier", default="quick")
    ap.add_argument("--parallel", type=int, default=2)
    ap.add_argument("--jobs", type=int, default=int(os.environ.get("SELFTEST_JOBS", "0")), help="worker processes per check run (default 16 // parallel)")
    a = ap.parse_args()
    jobs = []
    ids = [i.upper() for i in a.ids]
    if a.only_seeded:
        a.seeded = True
    for d in ([] if a.only_seeded else sorted(glob.glob(os.path.join(ROOT, "selftest", "C*")))):
        prop = os.path.basename(d)
        if ids and prop not in ids:
            continue
        for diff in sorted(glob.glob(os.path.join(d, "*.diff"))):
            jobs.append((prop, diff))
    if a.seeded:
        for d in sorted(glob.glob(os.path.join(ROOT, "seeded", "*"))):
            meta = os.path.join(d, "meta.json")
            diff = os.path.join(d, "patch.diff")
            if os.path.exists(meta) and os.path.exists(diff):
                prop = json.load(open(meta))["property"]
                if ids and prop not in ids:
                    continue
                names = [n for n in os.environ.get("SELFTEST_NAMES", "").split(",") if n]
                if names and os.path.basename(d) not in names:
                    continue
                jobs.append((prop, diff))
    per = a.jobs or max(1, 16 // max(1, a.parallel))
    ok = True
    with ThreadPoolExecutor(max_workers=a.parallel) as ex:
        for prop, diff, status, info in ex.map(lambda j: run_one(j[0], j[1], a.tier, per), jobs):
            print("%-4s %-60s %-14s %s" % (prop, os.path.relpath(diff, ROOT), status, info.replace("\n", " ")[:200]))
            sys.stdout.flush()
            ok = ok and status == "CAUGHT"
    sys.exit(0 if ok else 1)


if __name__ == "__main__":
    main()
