import json,sys,glob,os,re
pid=sys.argv[1]
rnd=sys.argv[2] if len(sys.argv)>2 else ''   # '' = round 1, '2' = round 2 ...

props={json.loads(l)['id']:json.loads(l) for l in open('/verif/properties.jsonl')}
p=props[pid]
txt=json.dumps({k:p[k] for k in ('id','title','statement','quantifier','why_tests_cant','anchors')},indent=1)
taken=[]
for d in sorted(glob.glob('/verif/seeded/%s-*'%pid)):
    n=os.path.join(d,'notes.md')
    if os.path.exists(n):
        t=re.sub(r'\s+',' ',open(n).read())[:420]
        taken.append('  - '+t)
taken_txt=('\n\nOther engineers already produced the following changes for this property; do NOT repeat them or close variants of them - find DIFFERENT mechanisms, clauses, code paths (e.g. the other networking framework, another transport/serializer/extension, another option combination, another API entry point, a different point in the life cycle):\n'+'\n'.join(taken)+'\n') if (rnd and taken) else ''
print(f"""You are a careful software engineer acting as a fault seeder. The repository crossbario/autobahn-python (a Python implementation of WebSocket RFC 6455 + permessage-compression and of the WAMP client protocol on Twisted and asyncio) is checked out for you as a scratch git worktree at /tmp/wt{rnd}-{pid} (your OWN copy; work only there and in /tmp/seedout{rnd}/{pid}/; never touch /repo, never read or touch /verif). There is no network. Python is /venv/bin/python (3.12); the package is importable from your worktree with PYTHONPATH=/tmp/wt{rnd}-{pid}/src (ALWAYS set this, otherwise `import autobahn` resolves to another checkout). Do not work with your current directory inside src/autobahn/wamp/ (a types.py there shadows the stdlib).

Here is a semantic property the library is supposed to satisfy:

{txt}

Task: produce THREE independent, realistic changes to the library (each a separate patch against the clean worktree, each touching the library source under src/autobahn only) that BREAK this property while the code still imports/compiles and the existing test suite still passes. Think of plausible regressions a maintainer could introduce during a refactoring/optimisation/bug-fix: an off-by-one at a boundary, a dropped or inverted guard, state not reset/carried, two cooperating sites that each look fine alone, a wrong branch for one option combination, a resource cleaned up on one path but not another. Each change must need something SPECIFIC to manifest - a particular interleaving or event order, a fault/loss at a particular point, a multi-step sequence, an unusual but legal input or option combination, a boundary size - and must NOT be exposed at once by ordinary use (a change that breaks every connection/message/call is useless). The three changes should use different mechanisms and, if the property has several clauses, hit different clauses.{taken_txt}

For each change k in 1,2,3 write into /tmp/seedout{rnd}/{pid}/k/:
  * patch.diff  - `git diff` output relative to the worktree root (paths a/src/autobahn/... b/src/autobahn/...), applicable with `git apply` on a clean checkout;
  * demo.py     - a small stand-alone program (or pytest file) that drives the REAL library code (in-memory/fake transports are fine; no network, no sleeping on wall-clock for more than a few seconds; both Twisted and asyncio are installed, select one with txaio.use_twisted()/use_asyncio() and choose whichever is simpler) and exits 0 printing PASS on the clean tree and exits 1 printing FAIL with the patch applied. It must take the source root from the environment: run as `PYTHONPATH=<root>/src /venv/bin/python demo.py`;
  * notes.md    - which clause of the property it breaks, what exactly is needed for it to manifest (input / sequence / interleaving / option combination), and why ordinary use and the existing tests do not expose it.

Verification you must do yourself for each change: (1) clean tree: demo prints PASS; (2) `git apply` the patch in the worktree: demo prints FAIL; (3) with the patch applied the pinned test suite still passes exactly as before: `cd /tmp/wt{rnd}-{pid} && env -u USE_TWISTED -u USE_ASYNCIO PYTHONPATH=/tmp/wt{rnd}-{pid}/src /venv/bin/python -m pytest -q -p no:cacheprovider --timeout=900 --continue-on-collection-errors 2>&1 | tail -3` (expect `288 passed` plus the same collection errors/failures as on the clean tree - run it once on the clean tree first to learn the numbers; takes ~20 s); (4) `git -C /tmp/wt{rnd}-{pid} checkout -- .` to return to the clean tree before the next change (never use `git stash`: the stash is shared between worktrees of other engineers).
Note on native code: the compiled modules _nvx_utf8validator / _nvx_xormasker that autobahn imports live prebuilt in /venv/lib/python3.12/site-packages and do NOT follow edits of src/autobahn/nvx/*.c. If one of your changes edits those C files, your demo must compile them itself with cffi into a temp dir put first on sys.path (ffi.cdef text = the cdef block in the sibling .py builder file; ffi.set_source(modname, open(cfile).read(), extra_compile_args=['-std=c99','-O3','-march=x86-64-v2']); ffi.compile(tmpdir=...)); AUTOBAHN_USE_NVX=0 selects the pure-Python implementations.

Finish with a short report listing for each change: one-line description, files touched, what is needed to manifest, and the three verification results. Leave the worktree clean (no patch applied).""")
