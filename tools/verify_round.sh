#!/bin/sh
# usage: verify_round.sh <round-suffix> ID...     e.g. verify_round.sh 2 C01 C02   (reads /tmp/seedout<r>/<ID>/{1,2,3})
r=$1; shift
cd /verif
for id in "$@"; do for k in 1 2 3; do
  d=/tmp/seedout$r/$id/$k
  [ -f $d/patch.diff ] || continue
  /venv/bin/python tools/seed_verify.py $id $d --keep --name r${r}seed$k --jobs 8 > /tmp/seedout$r/$id/verify$k.json 2>&1
  rc=$?
  echo "$id/r$r-$k rc=$rc $(python3 -c "
import json;d=json.load(open('/tmp/seedout$r/$id/verify$k.json'));print({k:d.get(k) for k in ('confirmed','patch_applies','check_rc','check_caught')}, (d.get('check_keys') or [''])[0][:130])")"
done; done
