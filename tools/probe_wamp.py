"""Usage example of vf.wamp_harness (run: cd /tmp && /venv/bin/python /verif/tools/probe_wamp.py tx websocket json)."""
import sys
sys.path.insert(0, '/verif')
from vf import bootstrap
fw, kind, ser = sys.argv[1:4]
bootstrap.use_framework(fw)
from vf.wamp_harness import RouterPeer, Outcome
from autobahn.wamp.protocol import ApplicationSession

log = []
class S(ApplicationSession):
    def onConnect(self): log.append("connect"); return super().onConnect()
    def onJoin(self, details): log.append(("join", details.session))
    def onLeave(self, details): log.append(("leave", details.reason)); return super().onLeave(details)
    def onDisconnect(self): log.append("disconnect")

rp = RouterPeer(lambda: S(), transport=kind, serializer=ser)
hello = rp.join()
print("HELLO", hello[:2], "log", log)
s = rp.session
o = Outcome(s.call("com.x.add", 2, 3, k=b"\x00\x01"))
sub = Outcome(s.subscribe(lambda *a, **k: log.append(("event", a, k)), "com.topic"))
msgs = rp.recv(); print("sent:", msgs)
rp.send([50, msgs[0][1], {}, [5]])
rp.send([33, msgs[1][1], 9001])
rp.send([36, 9001, 55, {}, ["hi"], {"a": 1}])
print("call:", o.results, "sub:", sub.results, log[-1])
o2 = Outcome(s.call("com.x.slow"))
rp.recv()
s.leave()
print("after leave:", rp.recv())
rp.send([6, {}, "wamp.close.goodbye_and_out"])
print(log, o2.results, "close req:", rp.ep.close_requested, rp.ws_close_frames)
rp.recv(); rp.teardown()
print(log, o2.results, rp.world.escaped)
