#!/usr/bin/env python3
"""Run the repository's pinned test command (hooks off - there are none) and compare with BASELINE.json."""
import json, subprocess, sys, tempfile, os, xml.etree.ElementTree as ET
repo = sys.argv[1] if len(sys.argv) > 1 else "/repo"
out = tempfile.mktemp(suffix=".xml")
env = dict(os.environ); env.pop("USE_TWISTED", None); env.pop("USE_ASYNCIO", None)
if repo != "/repo":
    env["PYTHONPATH"] = os.path.join(repo, "src")
subprocess.run(["/venv/bin/python", "-m", "pytest", "-q", "-p", "no:cacheprovider", "--timeout=900",
                "--continue-on-collection-errors", "--junitxml=" + out], cwd=repo, env=env,
               stdout=subprocess.DEVNULL, stderr=subprocess.DEVNULL)
base = set(json.load(open("/root/.vp/BASELINE.json"))["stable_pass"])
passed = set()
for tc in ET.parse(out).iter("testcase"):
    if not list(tc):
        passed.add(tc.get("classname") + "::" + tc.get("name"))
os.remove(out)
missing = sorted(base - passed)
print("baseline stable_pass=%d passed_now=%d missing=%d" % (len(base), len(passed & base), len(missing)))
for m in missing[:20]:
    print("  NOT PASSING:", m)
sys.exit(1 if missing else 0)
