#!/usr/bin/env python3
"""Regenerate the machine-derived tables of DESIGN.md section 7 (between the AUTOGEN markers) from
known_findings/*.json, seeded/*/meta.json, selftest/*/ and tools/ready.txt."""
import glob
import json
import os
import re

ROOT = os.path.dirname(os.path.dirname(os.path.abspath(__file__)))


def findings_table():
    rows = ["| finding | property | status | /repo commit | what failed |", "|---|---|---|---|---|"]
    for p in sorted(glob.glob(os.path.join(ROOT, "known_findings", "C*.json"))):
        d = json.load(open(p))
        for f in d.get("findings", []):
            rows.append("| %s | %s | %s | %s | %s |" % (
                f["id"], d["property"], f["status"], f.get("commit", "-"),
                f["what_fails"].replace("|", "/").replace("\n", " ")[:330]))
    return "\n".join(rows)


def seeded_table():
    rows = ["| seeded change | property | needs to manifest (author's note, abridged) | caught by | violation keys (first) |",
            "|---|---|---|---|---|"]
    for d in sorted(glob.glob(os.path.join(ROOT, "seeded", "*"))):
        mp = os.path.join(d, "meta.json")
        if not os.path.exists(mp):
            continue
        m = json.load(open(mp))
        note = re.sub(r"\s+", " ", m.get("needs_to_manifest", ""))
        note = re.sub(r"^#+ *", "", note)[:260].replace("|", "/")
        caught = m.get("caught_by_check")
        how = ("`./check %s` (quick)" % m["property"]) if caught else (
            ("not caught - " + m["not_caught_reason"][:160] + "...") if m.get("not_caught_reason") else (
                "**missed**" if caught is False else "not run yet"))
        if m.get("caught_after"):
            how += " - " + m["caught_after"]
        keys = "; ".join(k.split(" count=")[0].replace("key=", "") for k in (m.get("violation_keys") or [])[:2])
        rows.append("| %s%s | %s | %s | %s | %s |" % (os.path.basename(d), " (rebased)" if m.get("rebased") else "",
                                                   m["property"], note, how, keys.replace("|", "/")))
    return "\n".join(rows)


def selftest_table():
    rows = ["| property | registered | self-test breaks (selftest/<ID>/*.diff) | independently seeded changes |", "|---|---|---|---|"]
    ready = set(open(os.path.join(ROOT, "tools", "ready.txt")).read().split())
    for i in range(1, 21):
        pid = "C%02d" % i
        st = len(glob.glob(os.path.join(ROOT, "selftest", pid, "*.diff")))
        sd = [json.load(open(p)) for p in glob.glob(os.path.join(ROOT, "seeded", pid + "-*", "meta.json"))]
        c = sum(1 for m in sd if m.get("caught_by_check"))
        rows.append("| %s | %s | %d | %d caught of %d |" % (pid, "yes" if pid in ready else "no", st, c, len(sd)))
    return "\n".join(rows)


def evidence_table():
    rows = ["| property | level | tier/seed of the committed evidence | executions | distinct non-trivial | deciding counters (min required -> observed) |",
            "|---|---|---|---|---|---|"]
    import importlib, sys
    sys.path.insert(0, ROOT)
    for i in range(1, 21):
        pid = "C%02d" % i
        ep = os.path.join(ROOT, "evidence", pid + ".json")
        if not os.path.exists(ep):
            continue
        e = json.load(open(ep))
        cov = e["coverage"]
        try:
            mod = importlib.import_module("checks." + pid.lower())
            dec = getattr(mod, "DECIDING", {}) or {}
        except Exception:
            dec = {}
        oc, od = cov.get("observed_counters", {}), cov.get("observed_distinct", {})
        parts = []
        for k, v in list(dec.items())[:40]:
            if callable(v):
                v = v(e["tier"])
            got = oc.get(k, od.get(k, 0))
            parts.append("%s %s->%s" % (k, v, got))
        rows.append("| %s | %s | %s/%s | %s | %s | %s |" % (pid, e["level"], e["tier"], e["seed"], cov["evaluations"],
                                                     cov["distinct_nontrivial"], "; ".join(parts)))
    return "\n".join(rows)


def main():
    p = os.path.join(ROOT, "DESIGN.md")
    s = open(p).read()
    for name, fn in (("FINDINGS", findings_table), ("SEEDED", seeded_table), ("SELFTEST", selftest_table), ("EVIDENCE", evidence_table)):
        a, b = "<!-- AUTOGEN:%s -->" % name, "<!-- /AUTOGEN:%s -->" % name
        if a in s and b in s:
            s = s[:s.index(a) + len(a)] + "\n" + fn() + "\n" + s[s.index(b):]
    open(p, "w").write(s)
    print("DESIGN.md tables regenerated")


if __name__ == "__main__":
    main()
