import sys, os
sys.path.insert(0, '/verif')
from vf import bootstrap
fw = sys.argv[1]
bootstrap.use_framework(fw)
from vf.ws import WS, app_events, is_open, Link
from vf import rfc6455_ref as ref
ref.selfcheck()
w = WS()
sf = w.server_factory(options={"autoPingInterval": 5, "autoPingTimeout": 2})
cf = w.client_factory()
link = w.open_pair(sf, cf)
print(fw, "open:", is_open(link.a), is_open(link.b), app_events(link.a), app_events(link.b))
link.a.proto.sendMessage(b"hello", isBinary=False)
link.b.proto.sendMessage(b"\x00\x01" * 70000, isBinary=True)
w.world.settle()
link.pump_all()
print([ (e[1], len(e[2]) if e[1]=='onMessage' else e[2:]) for e in app_events(link.a)], [ (e[1], len(e[2]) if e[1]=='onMessage' else e[2:]) for e in app_events(link.b)])
print("timers", w.world.pending_timers(), w.world.now())
w.world.advance(5.0); link.pump_all(); print([e[1] for e in app_events(link.a)], [e[1] for e in app_events(link.b)])
w.world.advance(5.0); 
print("close req", link.b.close_requested, link.a.close_requested, w.world.escaped)
link.a.proto.sendClose(1000, "bye")
link.pump_all(); link.propagate_closes(); w.world.settle()
print([e[1:] for e in app_events(link.a) if e[1]=='onClose'], [e[1:] for e in app_events(link.b) if e[1]=='onClose'])
print(link.a.proto.vf_state_log, link.b.proto.vf_state_log, w.world.escaped)
# single-ended
s, out, key = w.open_server(w.server_factory())
print(out[:60], is_open(s))
s.feed(ref.encode_frame(ref.OP_TEXT, b"hi", mask=b"abcd")); print(app_events(s)[-1])
c, req, key = w.open_client(w.client_factory())
print(req[:40], is_open(c))
c.feed(ref.encode_frame(ref.OP_PING, b"pp")); print(app_events(c)[-1], ref.parse_frames(c.take_output())[0])
